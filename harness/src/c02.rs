//! C02 — a ProbMinHash signature is a function of the weighted set alone (exact relations, register hook)
use crate::common::*;
use crate::gen::*;
use crate::sk::*;
use rand::Rng as _;
use rand::RngCore;
use rayon::prelude::*;
use serde_json::{json, Value};

const PH: u64 = 0; // placeholder, never an item (fresh_ids avoids 0)

#[derive(Debug)]
struct Fail {
    key: String,
    what: String,
}

struct Obs {
    hs: Hs,
    execs: u64,
    ties: u64,
    outside_exact_domain: u64,
    relations_checked: u64,
    fails: Vec<Fail>,
    known_class: bool,
}

impl Obs {
    fn new(hs: Hs) -> Self {
        Obs { hs, execs: 0, ties: 0, outside_exact_domain: 0, relations_checked: 0, fails: vec![], known_class: false }
    }
}

/// compares (sig, reg) with the reference; equal registers with different items = tie (excused)
fn same(obs: &mut Obs, rel: &str, sig0: &[u64], reg0: &[f64], sig: &[u64], reg: &[f64]) {
    obs.relations_checked += 1;
    for p in 0..sig0.len() {
        if reg0[p].to_bits() != reg[p].to_bits() {
            obs.fails.push(Fail { key: format!("C02/{}", rel), what: format!("{}: register of position {} differs: {:e} vs {:e} (items {} vs {})", rel, p, reg0[p], reg[p], sig0[p], sig[p]) });
            return;
        }
        if sig0[p] != sig[p] {
            // same register value, different items: an exact floating point tie between two items is legitimately order
            // dependent -- unless the two items were given the same hash by a pass-through hasher, which must be injective
            if obs.hs.must_be_injective() && obs.hs.hash(sig0[p]) == obs.hs.hash(sig[p]) {
                obs.fails.push(Fail { key: "C02/hasher-collision".into(), what: format!("{}: position {} holds item {} in one execution and item {} in another; the pass-through hasher {:?} gives both the hash {:#x}", rel, p, sig0[p], sig[p], obs.hs, obs.hs.hash(sig[p])) });
                return;
            }
            obs.ties += 1;
        }
    }
}

fn gen_weights(rng: &mut Rng, n: usize, class: u32) -> Vec<f64> {
    match class {
        0 => (0..n).map(|_| 1.0).collect(),
        1 => (0..n).map(|_| rng.random_range(1..10u32) as f64).collect(),
        2 => (0..n).map(|_| 10f64.powf(rng.random_range(-6.0..6.0))).collect(),
        3 => (0..n).map(|_| 10f64.powf(rng.random_range(-300.0..300.0))).collect(),
        4 => (0..n).map(|_| 10f64.powf(rng.random_range(250.0..300.0))).collect(), // all huge
        5 => (0..n).map(|_| 10f64.powf(rng.random_range(-300.0..-250.0))).collect(), // all tiny (still representable races)
        6 => {
            // one dominating item
            let mut w: Vec<f64> = (0..n).map(|_| rng.random_range(0.5..2.0)).collect();
            w[0] = 1e9;
            w
        }
        _ => (0..n).map(|i| (i + 1) as f64).collect(),
    }
}

/// input class of the known finding: total weight so small that the race horizon exceeds f64::MAX
fn race_overflow_class(m: usize, wsum: f64) -> bool {
    let horizon = 64.0 * m as f64 * (1.0 + (m as f64).ln()) / wsum;
    !horizon.is_finite()
}

fn check_set(v: Pv, hs: Hs, m: usize, w: &[(u64, f64)], rng: &mut Rng, do_singles: bool, obs: &mut Obs) {
    let n = w.len();
    let wsum: f64 = w.iter().map(|x| x.1).sum();
    obs.known_class = race_overflow_class(m, wsum);
    let base_entry = Entry::Item;
    let (sig0, reg0) = pmh(v, hs, m, w, base_entry, PH);
    obs.execs += 1;
    // ---- R5 membership
    obs.relations_checked += 1;
    for p in 0..m {
        if !w.iter().any(|x| x.0 == sig0[p]) {
            let what = if sig0[p] == PH { "placeholder (not an item of this set)" } else { "foreign item" };
            let key = if sig0[p] == PH && obs.known_class { "C02/placeholder/race-overflow".to_string() } else if sig0[p] == PH { "C02/placeholder".to_string() } else { "C02/foreign-item".to_string() };
            obs.fails.push(Fail { key, what: format!("position {} of the signature of a non-empty set holds the {} ({}), register {:e}, total weight {:e}", p, what, sig0[p], reg0[p], wsum) });
            break;
        }
    }
    // ---- R1 orders
    let mut orders: Vec<(String, Vec<(u64, f64)>)> = Vec::new();
    for k in 0..2 {
        let mut o = w.to_vec();
        shuffle(&mut o, rng);
        orders.push((format!("shuffle{}", k), o));
    }
    let mut o = w.to_vec();
    o.sort_by(|a, b| b.1.partial_cmp(&a.1).unwrap());
    orders.push(("heaviest_first".into(), o.clone()));
    o.reverse();
    orders.push(("lightest_first".into(), o));
    let mut rev = w.to_vec();
    rev.reverse();
    orders.push(("reversed".into(), rev));
    // winners (items present in the signature) last / first
    let (mut win, mut lose): (Vec<(u64, f64)>, Vec<(u64, f64)>) = w.iter().partition(|x| sig0.contains(&x.0));
    shuffle(&mut win, rng);
    shuffle(&mut lose, rng);
    let mut wl = lose.clone();
    wl.extend_from_slice(&win);
    orders.push(("winners_last".into(), wl));
    let mut wf = win.clone();
    wf.extend_from_slice(&lose);
    orders.push(("winners_first".into(), wf));
    for (name, o) in &orders {
        let (s, r) = pmh(v, hs, m, o, base_entry, PH);
        obs.execs += 1;
        same(obs, &format!("order/{}", name), &sig0, &reg0, &s, &r);
    }
    // ---- R1 entry points and batchings (on a shuffled order)
    let entries: Vec<Entry> = match v {
        Pv::P2 => vec![Entry::Wset, Entry::HashMapStd, Entry::Batches(rng.random_range(2..=4)), Entry::HashBatches(2)],
        Pv::P3 => vec![Entry::Wset, Entry::IdxMap, Entry::HashMapStd, Entry::Batches(rng.random_range(2..=5)), Entry::HashBatches(3)],
        _ => vec![Entry::IdxMap, Entry::HashMapStd, Entry::Batches(2), Entry::Batches(rng.random_range(2..=4)), Entry::HashBatches(3)],
    };
    for e in entries {
        let o = &orders[rng.random_range(0..orders.len())].1;
        let (s, r) = pmh(v, hs, m, o, e, PH);
        obs.execs += 1;
        same(obs, &format!("entry/{:?}", e), &sig0, &reg0, &s, &r);
    }
    // ---- R2 re-insertion of already inserted pairs
    {
        let mut sub: Vec<(u64, f64)> = w.iter().filter(|_| rng.random_range(0..2) == 0).cloned().collect();
        if sub.is_empty() {
            sub.push(w[0]);
        }
        shuffle(&mut sub, rng);
        let (s, r) = pmh_batches(v, hs, m, &[w, &sub], PH);
        obs.execs += 1;
        same(obs, "reinsertion", &sig0, &reg0, &s, &r);
        // re-inserting everything
        let (s, r) = pmh_batches(v, hs, m, &[w, &orders[0].1, &sub], PH);
        obs.execs += 1;
        same(obs, "reinsertion", &sig0, &reg0, &s, &r);
    }
    // ---- R3 variant 3 == variant 3a (same hasher)
    if v == Pv::P3 {
        let (s, r) = pmh(Pv::P3a, hs, m, &orders[0].1, Entry::IdxMap, PH);
        obs.execs += 1;
        same(obs, "pmh3-vs-pmh3a", &sig0, &reg0, &s, &r);
        let (s, r) = pmh(Pv::P3a, hs, m, &orders[1].1, Entry::Batches(3), PH);
        obs.execs += 1;
        same(obs, "pmh3-vs-pmh3a", &sig0, &reg0, &s, &r);
    }
    // ---- R4 scaling by a power of two
    {
        let k: i32 = [1, -1, 3, 10, -10, 40, -40, 200, -200][rng.random_range(0..9)];
        let f = 2f64.powi(k);
        let scaled: Vec<(u64, f64)> = w.iter().map(|x| (x.0, x.1 * f)).collect();
        let rmin = reg0.iter().cloned().fold(f64::INFINITY, f64::min);
        let rmax = reg0.iter().cloned().fold(0., f64::max);
        let wmin = w.iter().map(|x| x.1).fold(f64::INFINITY, f64::min);
        let wmax = w.iter().map(|x| x.1).fold(0., f64::max);
        // exactness domain: weights, inverse weights, registers and their scaled images all normal and far from the ends
        let lo = 1e-290;
        let hi = 1e290;
        let inside = wmin * f > lo && wmax * f < hi && wmin > lo && wmax < hi && rmin > lo && rmax < hi && rmin / f > lo && rmax / f < hi && 1. / wmax > lo && 1. / (wmax * f) > lo;
        if inside {
            let (s, r) = pmh(v, hs, m, &scaled, base_entry, PH);
            obs.execs += 1;
            obs.relations_checked += 1;
            for p in 0..m {
                let expect = reg0[p] / f; // exact: division by a power of two inside the normal range
                if r[p].to_bits() != expect.to_bits() {
                    obs.fails.push(Fail { key: "C02/scaling".into(), what: format!("weights x 2^{}: register {} is {:e}, expected exactly {:e}", k, p, r[p], expect) });
                    break;
                }
                if s[p] != sig0[p] {
                    obs.ties += 1;
                }
            }
        } else {
            obs.outside_exact_domain += 1;
        }
    }
    // ---- R6 union composition on a random cover A, B of W with equal weights on the intersection
    if n >= 2 {
        let mut a = Vec::new();
        let mut b = Vec::new();
        for x in w {
            match rng.random_range(0..3) {
                0 => a.push(*x),
                1 => b.push(*x),
                _ => {
                    a.push(*x);
                    b.push(*x);
                }
            }
        }
        if a.is_empty() {
            a.push(w[0]);
        }
        if b.is_empty() {
            b.push(w[n - 1]);
        }
        let (sa, ra) = pmh(v, hs, m, &a, base_entry, PH);
        let (sb, rb) = pmh(v, hs, m, &b, base_entry, PH);
        obs.execs += 2;
        obs.relations_checked += 1;
        for p in 0..m {
            let mn = ra[p].min(rb[p]);
            if reg0[p].to_bits() != mn.to_bits() {
                obs.fails.push(Fail { key: "C02/union".into(), what: format!("union: register {} is {:e} but min(reg(A),reg(B)) = {:e}", p, reg0[p], mn) });
                break;
            }
            if sig0[p] != sa[p] && sig0[p] != sb[p] {
                obs.fails.push(Fail { key: "C02/union".into(), what: format!("union: position {} holds {} which is the signature of neither A ({}) nor B ({})", p, sig0[p], sa[p], sb[p]) });
                break;
            }
            let from_a = ra[p] < rb[p];
            let from_b = rb[p] < ra[p];
            if (from_a && sig0[p] != sa[p]) || (from_b && sig0[p] != sb[p]) {
                obs.fails.push(Fail { key: "C02/union".into(), what: format!("union: position {} does not hold the item of the side attaining the minimum", p) });
                break;
            }
        }
    }
    // ---- R6 with single items : unpruned reference
    if do_singles {
        let mut best = vec![f64::INFINITY; m];
        let mut arg = vec![PH; m];
        let mut tie = vec![false; m];
        for x in w {
            let (_s, r) = pmh(v, hs, m, &[*x], base_entry, PH);
            obs.execs += 1;
            for p in 0..m {
                if r[p] < best[p] {
                    best[p] = r[p];
                    arg[p] = x.0;
                    tie[p] = false;
                } else if r[p] == best[p] {
                    tie[p] = true;
                }
            }
        }
        obs.relations_checked += 1;
        if !obs.known_class {
            for p in 0..m {
                if reg0[p].to_bits() != best[p].to_bits() {
                    obs.fails.push(Fail { key: "C02/unpruned-reference".into(), what: format!("position {}: register {:e} but the smallest single-item register is {:e} (item {}): a valid point was pruned or a foreign value entered", p, reg0[p], best[p], arg[p]) });
                    break;
                }
                if sig0[p] != arg[p] {
                    if tie[p] {
                        obs.ties += 1;
                    } else {
                        obs.fails.push(Fail { key: "C02/unpruned-reference".into(), what: format!("position {}: holds {} but the argmin over single-item sketches is {}", p, sig0[p], arg[p]) });
                        break;
                    }
                }
            }
        }
    }
}

fn case_json(v: Pv, hs: Hs, m: usize, w: &[(u64, f64)]) -> Value {
    json!({"variant": v.name(), "hasher": format!("{:?}", hs), "m": m, "n": w.len(),
        "items": w.iter().take(40).map(|x| json!([x.0, format!("{:e}", x.1)])).collect::<Vec<_>>()})
}

pub fn run(rep: &mut Report) {
    quiet_panics();
    rep.rule = "per generated weighted set (n in 1..300, m in 1..1024, one set in 499 with m in 65530..70000; and 16 / 96 sets with small m that are either 66000..140000 items large or 2..11 items inserted 66000..140000 times in total on one sketcher, m in 1..1024, weights from 8 classes incl. 1e-300..1e300, all-tiny, all-huge, one dominating item) and variant: ~14-20 executions of the real code (7 insertion orders incl. heaviest/lightest first and winners first/last, all entry points and batchings, re-insertion, 3 vs 3a, weights x 2^k, union cover, single-item unpruned reference) compared bit-exactly on signature AND registers. Distinct = digest of (variant, m, items, weights); non-trivial when n >= 2".into();
    let nsets: u64 = rep.tier.pick(30_000, 1_500_000);
    let nlarge: u64 = rep.tier.pick(16, 96);
    let seed = subseed(rep.seed, "C02/sets", &[]);
    let only = rep.only_cell.clone();
    let results: Vec<(u64, Obs, Option<Value>, u64, u64)> = (0..nsets)
        .into_par_iter()
        .filter(|i| only.as_ref().map(|c| c == &format!("set{}", i) || c == "sets").unwrap_or(true))
        .map(|i| {
            let mut rng = rng_from(mix(&[seed, i]));
            let v = ALL_PV[(i % 4) as usize];
            let hs = if v == Pv::P3aSha {
                Hs::Fnv
            } else {
                match rng.random_range(0..10) {
                    0 | 1 => Hs::NoHash,
                    2 | 3 => Hs::NoHashMod,
                    _ => Hs::Fnv,
                }
            };
            // the last sets of the run are large (more items than 2^16: per-item counters of the implementation wrap inside one sketch)
            let large = i + nlarge >= nsets;
            let n = match rng.random_range(0..10) {
                _ if large && (i / 4) % 2 == 0 => rng.random_range(66_000..140_000),
                _ if large => rng.random_range(2..12),
                0 => 1,
                1 => 2,
                2 | 3 => rng.random_range(3..10),
                4..=7 => rng.random_range(10..80),
                _ => rng.random_range(80..300),
            };
            let m = match rng.random_range(0..10) {
                _ if large => [8usize, 3, 50, 2][((i / 8) % 4) as usize].max(v.min_m()),
                0 => v.min_m(),
                1 => 2,
                2 => 3,
                3 | 4 => rng.random_range(4..17),
                5..=7 => rng.random_range(17..129),
                _ => rng.random_range(129..1025),
            };
            // one set in 499 has a signature length above 2^16 (positions that do not fit 16 bits)
            let huge_m = i % 499 == 7;
            let m = if huge_m { rng.random_range(65_530..70_000) } else { m };
            let n = if huge_m { rng.random_range(1..40) } else { n };
            let class = rng.random_range(0..8u32);
            // identifiers: random u64, or (realistic for pre-hashed data) ranks: consecutive integers from a base, multiples of 256
            let ids: Vec<u64> = match rng.random_range(0..6) {
                0 => {
                    let base = [1u64, 250, 65_530, 16_777_210, (1 << 32) - 5, (1 << 40) + 3][rng.random_range(0..6)];
                    (0..n as u64).map(|k| base + k).collect()
                }
                1 => {
                    let step = [256u64, 65_536, 1 << 24, 255, 257][rng.random_range(0..5)];
                    (1..=n as u64).map(|k| k * step).collect()
                }
                _ => fresh_ids(&mut rng, n, PH),
            };
            // the placeholder value (0, "typically 0 for numeric objects") is itself a legitimate item in one set out of six
            let mut ids = ids;
            if rng.random_range(0..6) == 0 && !ids.contains(&PH) {
                let k = rng.random_range(0..n);
                ids[k] = PH;
            }
            let ws = gen_weights(&mut rng, n, class);
            let w: Vec<(u64, f64)> = ids.iter().cloned().zip(ws.iter().cloned()).collect();
            let do_singles = n <= 30 || (i % 8 == 0 && n * m <= 40_000);
            let mut obs = Obs::new(hs);
            let r = catch(std::panic::AssertUnwindSafe(|| {
                let mut o = Obs::new(hs);
                check_set(v, hs, m, &w, &mut rng, do_singles, &mut o);
                if large && n < 100 {
                    // the same small set inserted again and again on one sketcher: more than 2^16 insertions in total
                    let (sig0, reg0) = pmh(v, hs, m, &w, Entry::Item, PH);
                    let reps = rng.random_range(66_000..140_000) / n + 1;
                    let batches: Vec<&[(u64, f64)]> = (0..reps).map(|_| &w[..]).collect();
                    let (s, r) = pmh_batches(v, hs, m, &batches, PH);
                    o.execs += 2;
                    same(&mut o, "reinsertion-heavy", &sig0, &reg0, &s, &r);
                }
                o
            }));
            match r {
                Ok(o) => obs = o,
                Err(p) => obs.fails.push(Fail { key: "C02/panic".into(), what: format!("panic: {}", p) }),
            }
            let dig = mix(&[v as u64, m as u64, digest_u64s(&ids), digest_f64s(&ws)]);
            let case = if !obs.fails.is_empty() || i < 3 { Some(case_json(v, hs, m, &w)) } else { None };
            (i, obs, case, dig, n as u64)
        })
        .collect();
    for (i, obs, case, dig, n) in results {
        rep.evaluations += obs.execs;
        rep.count("sets", 1);
        rep.count("relations_checked", obs.relations_checked);
        if obs.ties > 0 {
            rep.excuse("exact_float_ties_between_items", obs.ties);
        }
        if obs.outside_exact_domain > 0 {
            rep.excuse("scaling_outside_exactness_domain", obs.outside_exact_domain);
        }
        if n >= 2 {
            rep.distinct.insert(dig);
        }
        if i < 3 {
            if let Some(c) = &case {
                rep.sample(c.clone());
            }
        }
        for f in obs.fails {
            rep.violation(&f.key, &format!("set{}", i), f.what, case.clone().unwrap_or(json!(null)));
        }
    }
    // ---- pass-through hashers must be injective (two items with the same hash replay the same race: the signature
    // could not be a function of the set). Realistic pre-hashed identifiers: ranks, shifted ranks, random words.
    if rep.want("hasher-injectivity") {
        use std::hash::BuildHasher;
        let mut vals: Vec<u64> = (0..200_000u64).collect();
        for k in 1..=4096u64 {
            for sh in [8u32, 16, 24, 32, 40, 48, 56] {
                vals.push(k << sh);
                vals.push((k << sh) | 1);
            }
        }
        let mut rng = rng_from(subseed(rep.seed, "C02/inj", &[]));
        for _ in 0..200_000 {
            vals.push(rng.next_u64());
        }
        vals.sort_unstable();
        vals.dedup();
        for (name, f) in [
            ("superminhasher::NoHashHasher", Box::new(|x: u64| std::hash::BuildHasherDefault::<probminhash::superminhasher::NoHashHasher>::default().hash_one(x)) as Box<dyn Fn(u64) -> u64>),
            ("nohasher::NoHashHasher", Box::new(|x: u64| std::hash::BuildHasherDefault::<probminhash::nohasher::NoHashHasher>::default().hash_one(x))),
            ("superminhasher::NoHashHasher on u32", Box::new(|x: u64| std::hash::BuildHasherDefault::<probminhash::superminhasher::NoHashHasher>::default().hash_one(x as u32))),
            ("nohasher::NoHashHasher on u32", Box::new(|x: u64| std::hash::BuildHasherDefault::<probminhash::nohasher::NoHashHasher>::default().hash_one(x as u32))),
        ] {
            let is32 = name.ends_with("u32");
            let mut hv: Vec<(u64, u64)> = vals.iter().filter(|x| !is32 || **x <= u32::MAX as u64).map(|&x| (f(x), x)).collect();
            hv.sort_unstable();
            rep.evaluations += hv.len() as u64;
            rep.count("hasher_injectivity.values", hv.len() as u64);
            if let Some(w) = hv.windows(2).find(|w| w[0].0 == w[1].0) {
                rep.violation("C02/hasher-collision", "hasher-injectivity", format!("{} gives the items {} and {} the same hash {:#x}", name, w[0].1, w[1].1, w[0].0), json!({"hasher": name, "items": [w[0].1, w[1].1]}));
            }
        }
    }
    // ---- dedicated cell of the known finding class: total weight below the representable race horizon
    if rep.want("tiny") {
        let seed = subseed(rep.seed, "C02/tiny", &[]);
        let mut rng = rng_from(seed);
        let ntiny = rep.tier.pick(40, 400);
        for t in 0..ntiny {
            let v = ALL_PV[t % 4];
            let m = [2usize, 10, 100, 1000][rng.random_range(0..4)].max(v.min_m());
            let n = rng.random_range(1..20);
            let ids = fresh_ids(&mut rng, n, PH);
            let e = rng.random_range(-307.6..-305.5);
            let w: Vec<(u64, f64)> = ids.iter().map(|&d| (d, 10f64.powf(e) * rng.random_range(0.5..1.0))).collect();
            let mut obs = Obs::new(Hs::Fnv);
            let res = catch(std::panic::AssertUnwindSafe(|| {
                let mut o = Obs::new(Hs::Fnv);
                let mut r2 = rng_from(mix(&[seed, t as u64]));
                check_set(v, Hs::Fnv, m, &w, &mut r2, false, &mut o);
                o
            }));
            match res {
                Ok(o) => obs = o,
                Err(p) => obs.fails.push(Fail { key: "C02/panic".into(), what: format!("panic: {}", p) }),
            }
            rep.evaluations += obs.execs;
            rep.count("tiny.sets", 1);
            rep.distinct.insert(mix(&[77, t as u64, digest_u64s(&ids)]));
            for f in obs.fails {
                rep.violation(&f.key, "tiny", f.what, case_json(v, Hs::Fnv, m, &w));
            }
        }
    }
    collect_ticks(rep);
    rep.assumptions.push("equal registers with different items are exact floating point ties between two items and are excused (counted in coverage.excused)".into());
    rep.assumptions.push("the power-of-two scaling clause is judged only when weights, inverse weights and registers stay in the normal range [1e-290,1e290] (counted otherwise)".into());
}
