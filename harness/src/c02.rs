use crate::common::*;

pub fn run(rep: &mut Report) {
    let _ = rep;
    eprintln!("C02 not implemented yet");
}
