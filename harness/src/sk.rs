//! thin wrappers driving the real sketchers of the crate through their public entry points
use fnv::FnvHasher;
use indexmap::IndexMap;
use probminhash::probminhasher::*;
use probminhash::superminhasher::NoHashHasher;
use probminhash::weightedset::WeightedSet;
use std::collections::HashMap;
use std::hash::{BuildHasherDefault, Hasher};

#[derive(Clone, Copy, Debug, PartialEq, Eq)]
pub enum Pv {
    P2,
    P3,
    P3a,
    P3aSha,
}
pub const ALL_PV: [Pv; 4] = [Pv::P2, Pv::P3, Pv::P3a, Pv::P3aSha];

impl Pv {
    pub fn name(&self) -> &'static str {
        match self {
            Pv::P2 => "pmh2",
            Pv::P3 => "pmh3",
            Pv::P3a => "pmh3a",
            Pv::P3aSha => "pmh3asha",
        }
    }
    pub fn min_m(&self) -> usize {
        match self {
            Pv::P2 => 1,
            _ => 2,
        }
    }
}

#[derive(Clone, Copy, Debug, PartialEq, Eq)]
pub enum Hs {
    Fnv,
    NoHash,
}

#[derive(Clone, Copy, Debug, PartialEq, Eq)]
pub enum Entry {
    /// item-wise streaming (hash_item); for 3a/3aSha one IndexMap call
    Item,
    /// WeightedSet + Iterator object (P2, P3); others fall back to IndexMap
    Wset,
    IdxMap,
    /// std HashMap with RandomState (iteration order differs per instance / process)
    HashMapStd,
    /// several batches (3a / 3aSha : several hash_weigthed_idxmap calls; P2/P3: same as Item)
    Batches(usize),
    /// several batches through HashMap calls
    HashBatches(usize),
}

pub struct WSet {
    items: Vec<u64>,
    pos: usize,
    w: HashMap<u64, f64>,
}
impl WSet {
    pub fn new(items: &[(u64, f64)]) -> Self {
        WSet { items: items.iter().map(|x| x.0).collect(), pos: 0, w: items.iter().cloned().collect() }
    }
}
impl Iterator for WSet {
    type Item = u64;
    fn next(&mut self) -> Option<u64> {
        if self.pos < self.items.len() {
            self.pos += 1;
            Some(self.items[self.pos - 1])
        } else {
            None
        }
    }
}
impl WeightedSet for WSet {
    type Object = u64;
    fn get_weight(&self, obj: &u64) -> f64 {
        self.w[obj]
    }
}

fn chunks(items: &[(u64, f64)], k: usize) -> Vec<&[(u64, f64)]> {
    let k = k.max(1).min(items.len().max(1));
    let sz = items.len().div_ceil(k).max(1);
    items.chunks(sz).collect()
}

fn pmh_generic<H: Hasher + Default>(v: Pv, m: usize, items: &[(u64, f64)], entry: Entry, ph: u64) -> (Vec<u64>, Vec<f64>) {
    match v {
        Pv::P2 => {
            let mut s = ProbMinHash2::<u64, H>::new(m, ph);
            match entry {
                Entry::Wset => s.hash_wset(&mut WSet::new(items)),
                Entry::HashMapStd | Entry::HashBatches(_) => {
                    let hm: HashMap<u64, f64> = items.iter().cloned().collect();
                    s.hash_weigthed_hashmap::<()>(&hm)
                }
                _ => {
                    for (d, w) in items {
                        s.hash_item(*d, *w);
                    }
                }
            }
            (s.get_signature().clone(), s.verif_registers())
        }
        Pv::P3 => {
            let mut s = ProbMinHash3::<u64, H>::new(m, ph);
            match entry {
                Entry::Wset => s.hash_wset(&mut WSet::new(items)),
                Entry::IdxMap => {
                    let im: IndexMap<u64, f64> = items.iter().cloned().collect();
                    s.hash_weigthed_idxmap(&im)
                }
                Entry::HashMapStd | Entry::HashBatches(_) => {
                    let hm: HashMap<u64, f64> = items.iter().cloned().collect();
                    s.hash_weigthed_hashmap(&hm)
                }
                _ => {
                    for (d, w) in items {
                        s.hash_item(*d, w);
                    }
                }
            }
            (s.get_signature().clone(), s.verif_registers())
        }
        Pv::P3a => {
            let mut s = ProbMinHash3a::<u64, H>::new(m, ph);
            match entry {
                Entry::HashMapStd => {
                    let hm: HashMap<u64, f64> = items.iter().cloned().collect();
                    s.hash_weigthed_hashmap(&hm)
                }
                Entry::Batches(k) => {
                    for c in chunks(items, k) {
                        let im: IndexMap<u64, f64> = c.iter().cloned().collect();
                        s.hash_weigthed_idxmap(&im);
                    }
                }
                Entry::HashBatches(k) => {
                    for c in chunks(items, k) {
                        let hm: HashMap<u64, f64> = c.iter().cloned().collect();
                        s.hash_weigthed_hashmap(&hm);
                    }
                }
                _ => {
                    let im: IndexMap<u64, f64> = items.iter().cloned().collect();
                    s.hash_weigthed_idxmap(&im)
                }
            }
            (s.get_signature().clone(), s.verif_registers())
        }
        Pv::P3aSha => {
            let mut s = ProbMinHash3aSha::<u64>::new(m, ph);
            match entry {
                Entry::HashMapStd => {
                    let hm: HashMap<u64, f64> = items.iter().cloned().collect();
                    s.hash_weigthed_hashmap(&hm)
                }
                Entry::Batches(k) => {
                    for c in chunks(items, k) {
                        let im: IndexMap<u64, f64> = c.iter().cloned().collect();
                        s.hash_weigthed_idxmap(&im);
                    }
                }
                Entry::HashBatches(k) => {
                    for c in chunks(items, k) {
                        let hm: HashMap<u64, f64> = c.iter().cloned().collect();
                        s.hash_weigthed_hashmap(&hm);
                    }
                }
                _ => {
                    let im: IndexMap<u64, f64> = items.iter().cloned().collect();
                    s.hash_weigthed_idxmap(&im)
                }
            }
            (s.get_signature().clone(), s.verif_registers())
        }
    }
}

/// sketch a weighted set given as (item, weight) pairs, in the order given; returns (signature, registers)
pub fn pmh(v: Pv, hs: Hs, m: usize, items: &[(u64, f64)], entry: Entry, placeholder: u64) -> (Vec<u64>, Vec<f64>) {
    match hs {
        Hs::Fnv => pmh_generic::<FnvHasher>(v, m, items, entry, placeholder),
        Hs::NoHash => pmh_generic::<NoHashHasher>(v, m, items, entry, placeholder),
    }
}

pub fn fnv_build() -> BuildHasherDefault<FnvHasher> {
    BuildHasherDefault::<FnvHasher>::default()
}

/// process several batches in order with one sketcher: P2/P3 item-wise, 3a/3aSha one IndexMap call per batch
pub fn pmh_batches(v: Pv, hs: Hs, m: usize, batches: &[&[(u64, f64)]], ph: u64) -> (Vec<u64>, Vec<f64>) {
    match hs {
        Hs::Fnv => pmh_batches_g::<FnvHasher>(v, m, batches, ph),
        Hs::NoHash => pmh_batches_g::<NoHashHasher>(v, m, batches, ph),
    }
}

fn pmh_batches_g<H: Hasher + Default>(v: Pv, m: usize, batches: &[&[(u64, f64)]], ph: u64) -> (Vec<u64>, Vec<f64>) {
    match v {
        Pv::P2 => {
            let mut s = ProbMinHash2::<u64, H>::new(m, ph);
            for b in batches {
                for (d, w) in b.iter() {
                    s.hash_item(*d, *w);
                }
            }
            (s.get_signature().clone(), s.verif_registers())
        }
        Pv::P3 => {
            let mut s = ProbMinHash3::<u64, H>::new(m, ph);
            for b in batches {
                for (d, w) in b.iter() {
                    s.hash_item(*d, w);
                }
            }
            (s.get_signature().clone(), s.verif_registers())
        }
        Pv::P3a => {
            let mut s = ProbMinHash3a::<u64, H>::new(m, ph);
            for b in batches {
                let im: IndexMap<u64, f64> = b.iter().cloned().collect();
                s.hash_weigthed_idxmap(&im);
            }
            (s.get_signature().clone(), s.verif_registers())
        }
        Pv::P3aSha => {
            let mut s = ProbMinHash3aSha::<u64>::new(m, ph);
            for b in batches {
                let im: IndexMap<u64, f64> = b.iter().cloned().collect();
                s.hash_weigthed_idxmap(&im);
            }
            (s.get_signature().clone(), s.verif_registers())
        }
    }
}
