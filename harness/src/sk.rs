//! thin wrappers driving the real sketchers of the crate through their public entry points
use fnv::FnvHasher;
use indexmap::IndexMap;
use probminhash::probminhasher::*;
use probminhash::superminhasher::NoHashHasher;
use probminhash::weightedset::WeightedSet;
use std::collections::HashMap;
use std::hash::{BuildHasherDefault, Hasher};

#[derive(Clone, Copy, Debug, PartialEq, Eq)]
pub enum Pv {
    P2,
    P3,
    P3a,
    P3aSha,
}
pub const ALL_PV: [Pv; 4] = [Pv::P2, Pv::P3, Pv::P3a, Pv::P3aSha];

impl Pv {
    pub fn name(&self) -> &'static str {
        match self {
            Pv::P2 => "pmh2",
            Pv::P3 => "pmh3",
            Pv::P3a => "pmh3a",
            Pv::P3aSha => "pmh3asha",
        }
    }
    pub fn min_m(&self) -> usize {
        match self {
            Pv::P2 => 1,
            _ => 2,
        }
    }
}

#[derive(Clone, Copy, Debug, PartialEq, Eq)]
pub enum Hs {
    Fnv,
    /// probminhash::superminhasher::NoHashHasher
    NoHash,
    /// probminhash::nohasher::NoHashHasher (a second, separate type of the crate)
    NoHashMod,
}

impl Hs {
    /// hash of an item as the sketchers compute it
    pub fn hash(&self, x: u64) -> u64 {
        use std::hash::BuildHasher;
        match self {
            Hs::Fnv => BuildHasherDefault::<FnvHasher>::default().hash_one(x),
            Hs::NoHash => BuildHasherDefault::<NoHashHasher>::default().hash_one(x),
            Hs::NoHashMod => BuildHasherDefault::<probminhash::nohasher::NoHashHasher>::default().hash_one(x),
        }
    }
    /// a pass-through hasher must be injective
    pub fn must_be_injective(&self) -> bool {
        !matches!(self, Hs::Fnv)
    }
}

#[derive(Clone, Copy, Debug, PartialEq, Eq)]
pub enum Entry {
    /// item-wise streaming (hash_item); for 3a/3aSha one IndexMap call
    Item,
    /// WeightedSet + Iterator object (P2, P3); others fall back to IndexMap
    Wset,
    IdxMap,
    /// std HashMap with RandomState (iteration order differs per instance / process)
    HashMapStd,
    /// several calls on one sketcher (3a / 3aSha : several hash_weigthed_idxmap calls; P2/P3: a rotation of container, item-wise and weighted-set calls)
    Batches(usize),
    /// several batches through HashMap calls
    HashBatches(usize),
}

pub struct WSet {
    items: Vec<u64>,
    pos: usize,
    w: HashMap<u64, f64>,
}
impl WSet {
    pub fn new(items: &[(u64, f64)]) -> Self {
        WSet { items: items.iter().map(|x| x.0).collect(), pos: 0, w: items.iter().cloned().collect() }
    }
}
impl Iterator for WSet {
    type Item = u64;
    fn next(&mut self) -> Option<u64> {
        if self.pos < self.items.len() {
            self.pos += 1;
            Some(self.items[self.pos - 1])
        } else {
            None
        }
    }
}
impl WeightedSet for WSet {
    type Object = u64;
    fn get_weight(&self, obj: &u64) -> f64 {
        self.w[obj]
    }
}

fn chunks(items: &[(u64, f64)], k: usize) -> Vec<&[(u64, f64)]> {
    let k = k.max(1).min(items.len().max(1));
    let sz = items.len().div_ceil(k).max(1);
    items.chunks(sz).collect()
}

fn pmh_generic<H: Hasher + Default>(v: Pv, m: usize, items: &[(u64, f64)], entry: Entry, ph: u64) -> (Vec<u64>, Vec<f64>) {
    match v {
        Pv::P2 => {
            let mut s = ProbMinHash2::<u64, H>::new(m, ph);
            match entry {
                Entry::Wset => s.hash_wset(&mut WSet::new(items)),
                Entry::HashMapStd => {
                    let hm: HashMap<u64, f64> = items.iter().cloned().collect();
                    s.hash_weigthed_hashmap::<()>(&hm)
                }
                // several calls on one sketcher: HashMap batches, or a rotation of HashMap / item-wise / weighted-set calls
                Entry::HashBatches(k) => {
                    for c in chunks(items, k) {
                        let hm: HashMap<u64, f64> = c.iter().cloned().collect();
                        s.hash_weigthed_hashmap::<()>(&hm);
                    }
                }
                Entry::Batches(k) => {
                    for (i, c) in chunks(items, k).into_iter().enumerate() {
                        match i % 3 {
                            0 => {
                                let hm: HashMap<u64, f64> = c.iter().cloned().collect();
                                s.hash_weigthed_hashmap::<()>(&hm);
                            }
                            1 => {
                                for (d, w) in c {
                                    s.hash_item(*d, *w);
                                }
                            }
                            _ => s.hash_wset(&mut WSet::new(c)),
                        }
                    }
                }
                _ => {
                    for (d, w) in items {
                        s.hash_item(*d, *w);
                    }
                }
            }
            (s.get_signature().clone(), s.verif_registers())
        }
        Pv::P3 => {
            let mut s = ProbMinHash3::<u64, H>::new(m, ph);
            match entry {
                Entry::Wset => s.hash_wset(&mut WSet::new(items)),
                Entry::IdxMap => {
                    let im: IndexMap<u64, f64> = items.iter().cloned().collect();
                    s.hash_weigthed_idxmap(&im)
                }
                Entry::HashMapStd => {
                    let hm: HashMap<u64, f64> = items.iter().cloned().collect();
                    s.hash_weigthed_hashmap(&hm)
                }
                Entry::HashBatches(k) => {
                    for c in chunks(items, k) {
                        let hm: HashMap<u64, f64> = c.iter().cloned().collect();
                        s.hash_weigthed_hashmap(&hm);
                    }
                }
                // several calls on one sketcher: a rotation of IndexMap / item-wise / HashMap / weighted-set calls
                Entry::Batches(k) => {
                    for (i, c) in chunks(items, k).into_iter().enumerate() {
                        match i % 4 {
                            0 => {
                                let im: IndexMap<u64, f64> = c.iter().cloned().collect();
                                s.hash_weigthed_idxmap(&im);
                            }
                            1 => {
                                for (d, w) in c {
                                    s.hash_item(*d, w);
                                }
                            }
                            2 => {
                                let hm: HashMap<u64, f64> = c.iter().cloned().collect();
                                s.hash_weigthed_hashmap(&hm);
                            }
                            _ => s.hash_wset(&mut WSet::new(c)),
                        }
                    }
                }
                _ => {
                    for (d, w) in items {
                        s.hash_item(*d, w);
                    }
                }
            }
            (s.get_signature().clone(), s.verif_registers())
        }
        Pv::P3a => {
            let mut s = ProbMinHash3a::<u64, H>::new(m, ph);
            match entry {
                Entry::HashMapStd => {
                    let hm: HashMap<u64, f64> = items.iter().cloned().collect();
                    s.hash_weigthed_hashmap(&hm)
                }
                Entry::Batches(k) => {
                    for c in chunks(items, k) {
                        let im: IndexMap<u64, f64> = c.iter().cloned().collect();
                        s.hash_weigthed_idxmap(&im);
                    }
                }
                Entry::HashBatches(k) => {
                    for c in chunks(items, k) {
                        let hm: HashMap<u64, f64> = c.iter().cloned().collect();
                        s.hash_weigthed_hashmap(&hm);
                    }
                }
                _ => {
                    let im: IndexMap<u64, f64> = items.iter().cloned().collect();
                    s.hash_weigthed_idxmap(&im)
                }
            }
            (s.get_signature().clone(), s.verif_registers())
        }
        Pv::P3aSha => {
            let mut s = ProbMinHash3aSha::<u64>::new(m, ph);
            match entry {
                Entry::HashMapStd => {
                    let hm: HashMap<u64, f64> = items.iter().cloned().collect();
                    s.hash_weigthed_hashmap(&hm)
                }
                Entry::Batches(k) => {
                    for c in chunks(items, k) {
                        let im: IndexMap<u64, f64> = c.iter().cloned().collect();
                        s.hash_weigthed_idxmap(&im);
                    }
                }
                Entry::HashBatches(k) => {
                    for c in chunks(items, k) {
                        let hm: HashMap<u64, f64> = c.iter().cloned().collect();
                        s.hash_weigthed_hashmap(&hm);
                    }
                }
                _ => {
                    let im: IndexMap<u64, f64> = items.iter().cloned().collect();
                    s.hash_weigthed_idxmap(&im)
                }
            }
            (s.get_signature().clone(), s.verif_registers())
        }
    }
}

/// sketch a weighted set given as (item, weight) pairs, in the order given; returns (signature, registers)
pub fn pmh(v: Pv, hs: Hs, m: usize, items: &[(u64, f64)], entry: Entry, placeholder: u64) -> (Vec<u64>, Vec<f64>) {
    match hs {
        Hs::Fnv => pmh_generic::<FnvHasher>(v, m, items, entry, placeholder),
        Hs::NoHash => pmh_generic::<NoHashHasher>(v, m, items, entry, placeholder),
        Hs::NoHashMod => pmh_generic::<probminhash::nohasher::NoHashHasher>(v, m, items, entry, placeholder),
    }
}

pub fn fnv_build() -> BuildHasherDefault<FnvHasher> {
    BuildHasherDefault::<FnvHasher>::default()
}

/// process several batches in order with one sketcher: P2/P3 item-wise, 3a/3aSha one IndexMap call per batch
pub fn pmh_batches(v: Pv, hs: Hs, m: usize, batches: &[&[(u64, f64)]], ph: u64) -> (Vec<u64>, Vec<f64>) {
    match hs {
        Hs::Fnv => pmh_batches_g::<FnvHasher>(v, m, batches, ph),
        Hs::NoHash => pmh_batches_g::<NoHashHasher>(v, m, batches, ph),
        Hs::NoHashMod => pmh_batches_g::<probminhash::nohasher::NoHashHasher>(v, m, batches, ph),
    }
}

fn pmh_batches_g<H: Hasher + Default>(v: Pv, m: usize, batches: &[&[(u64, f64)]], ph: u64) -> (Vec<u64>, Vec<f64>) {
    match v {
        Pv::P2 => {
            let mut s = ProbMinHash2::<u64, H>::new(m, ph);
            for b in batches {
                for (d, w) in b.iter() {
                    s.hash_item(*d, *w);
                }
            }
            (s.get_signature().clone(), s.verif_registers())
        }
        Pv::P3 => {
            let mut s = ProbMinHash3::<u64, H>::new(m, ph);
            for b in batches {
                for (d, w) in b.iter() {
                    s.hash_item(*d, w);
                }
            }
            (s.get_signature().clone(), s.verif_registers())
        }
        Pv::P3a => {
            let mut s = ProbMinHash3a::<u64, H>::new(m, ph);
            for b in batches {
                let im: IndexMap<u64, f64> = b.iter().cloned().collect();
                s.hash_weigthed_idxmap(&im);
            }
            (s.get_signature().clone(), s.verif_registers())
        }
        Pv::P3aSha => {
            let mut s = ProbMinHash3aSha::<u64>::new(m, ph);
            for b in batches {
                let im: IndexMap<u64, f64> = b.iter().cloned().collect();
                s.hash_weigthed_idxmap(&im);
            }
            (s.get_signature().clone(), s.verif_registers())
        }
    }
}

// =====================================================================================================
// unweighted sketchers behind one object-safe trait (items are u64)

use probminhash::densminhash::{OptDensMinHash, RevOptDensMinHash};
use probminhash::setsketcher::{SetSketchParams, SetSketcher};
use probminhash::superminhasher::SuperMinHash;
use probminhash::superminhasher2::SuperMinHash2;
use twox_hash::XxHash32;

pub trait USk {
    fn sketch(&mut self, x: u64);
    /// returns false if the slice call reported an error
    fn sketch_slice(&mut self, xs: &[u64]) -> bool;
    /// finishing step (densified sketchers), no-op otherwise
    fn finish(&mut self);
    fn reinit(&mut self);
    /// canonical bit image of every view of the sketch
    fn bits(&self) -> Vec<u64>;
    /// stored item hashes, if the sketch stores hashes
    fn stored_hashes(&self) -> Option<Vec<u64>>;
}

#[derive(Clone, Copy, Debug, PartialEq)]
pub enum UKind {
    SmhF32,
    SmhF64,
    SmhF64NoHash,
    Smh2U64,
    Smh2U32,
    SetU16(f64, f64, u64), // b, a, q
    SetU32(f64, f64, u64),
    OptF32,
    OptF64,
    RevF32,
    RevF64,
    /// NoHashHasher variants: the item value IS the hash (adversarial hashes such as 0 or u64::MAX can be streamed)
    Smh2U64NoHash,
    OptF64NoHash,
    RevF64NoHash,
}

impl UKind {
    pub fn name(&self) -> String {
        format!("{:?}", self)
    }
    pub fn is_dens(&self) -> bool {
        matches!(self, UKind::OptF32 | UKind::OptF64 | UKind::RevF32 | UKind::RevF64 | UKind::OptF64NoHash | UKind::RevF64NoHash)
    }
    pub fn is_nohash(&self) -> bool {
        matches!(self, UKind::SmhF64NoHash | UKind::Smh2U64NoHash | UKind::OptF64NoHash | UKind::RevF64NoHash)
    }
    pub fn is_rev(&self) -> bool {
        matches!(self, UKind::RevF32 | UKind::RevF64 | UKind::RevF64NoHash)
    }
    /// hash of an item as the sketcher computes it
    pub fn item_hash(&self, x: u64) -> u64 {
        use std::hash::BuildHasher;
        match self {
            UKind::Smh2U32 => BuildHasherDefault::<XxHash32>::default().hash_one(x),
            UKind::SmhF64NoHash | UKind::Smh2U64NoHash | UKind::OptF64NoHash | UKind::RevF64NoHash => BuildHasherDefault::<NoHashHasher>::default().hash_one(x),
            _ => BuildHasherDefault::<FnvHasher>::default().hash_one(x),
        }
    }
}

macro_rules! impl_smh {
    ($f:ty, $h:ty) => {
        impl USk for SuperMinHash<$f, u64, $h> {
            fn sketch(&mut self, x: u64) {
                SuperMinHash::sketch(self, &x).unwrap();
            }
            fn sketch_slice(&mut self, xs: &[u64]) -> bool {
                SuperMinHash::sketch_slice(self, xs).is_ok()
            }
            fn finish(&mut self) {}
            fn reinit(&mut self) {
                SuperMinHash::reinit(self)
            }
            fn bits(&self) -> Vec<u64> {
                self.get_hsketch().iter().map(|v| (*v as f64).to_bits()).collect()
            }
            fn stored_hashes(&self) -> Option<Vec<u64>> {
                None
            }
        }
    };
}
impl_smh!(f32, FnvHasher);
impl_smh!(f64, FnvHasher);
impl_smh!(f64, NoHashHasher);

macro_rules! impl_smh2 {
    ($i:ty, $h:ty) => {
        impl USk for SuperMinHash2<$i, u64, $h> {
            fn sketch(&mut self, x: u64) {
                SuperMinHash2::sketch(self, &x).unwrap();
            }
            fn sketch_slice(&mut self, xs: &[u64]) -> bool {
                SuperMinHash2::sketch_slice(self, xs).is_ok()
            }
            fn finish(&mut self) {}
            fn reinit(&mut self) {
                SuperMinHash2::reinit(self)
            }
            fn bits(&self) -> Vec<u64> {
                self.get_hsketch().iter().map(|v| *v as u64).collect()
            }
            fn stored_hashes(&self) -> Option<Vec<u64>> {
                Some(self.get_hsketch().iter().map(|v| *v as u64).collect())
            }
        }
    };
}
impl_smh2!(u64, FnvHasher);
impl_smh2!(u64, NoHashHasher);
impl_smh2!(u32, XxHash32);

macro_rules! impl_set {
    ($i:ty) => {
        impl USk for SetSketcher<$i, u64, FnvHasher> {
            fn sketch(&mut self, x: u64) {
                SetSketcher::sketch(self, &x).unwrap();
            }
            fn sketch_slice(&mut self, xs: &[u64]) -> bool {
                SetSketcher::sketch_slice(self, xs).is_ok()
            }
            fn finish(&mut self) {}
            fn reinit(&mut self) {
                SetSketcher::reinit(self)
            }
            fn bits(&self) -> Vec<u64> {
                self.get_signature().iter().map(|v| *v as u64).collect()
            }
            fn stored_hashes(&self) -> Option<Vec<u64>> {
                None
            }
        }
    };
}
impl_set!(u16);
impl_set!(u32);

macro_rules! impl_dens {
    ($t:ident, $f:ty) => {
        impl_dens!($t, $f, FnvHasher);
    };
    ($t:ident, $f:ty, $h:ty) => {
        impl USk for $t<$f, u64, $h> {
            fn sketch(&mut self, x: u64) {
                $t::sketch(self, &x);
            }
            fn sketch_slice(&mut self, xs: &[u64]) -> bool {
                $t::sketch_slice(self, xs).is_ok()
            }
            fn finish(&mut self) {
                self.end_sketch()
            }
            fn reinit(&mut self) {
                $t::reinit(self)
            }
            fn bits(&self) -> Vec<u64> {
                let mut v: Vec<u64> = self.get_hsketch().iter().map(|v| (*v as f64).to_bits()).collect();
                v.extend(self.get_hsketch_u64());
                v.extend(self.get_hsketch_u32().iter().map(|x| *x as u64));
                v
            }
            fn stored_hashes(&self) -> Option<Vec<u64>> {
                Some(self.get_hsketch_u64())
            }
        }
    };
}
impl_dens!(OptDensMinHash, f32);
impl_dens!(OptDensMinHash, f64);
impl_dens!(RevOptDensMinHash, f32);
impl_dens!(RevOptDensMinHash, f64);
impl_dens!(OptDensMinHash, f64, NoHashHasher);
impl_dens!(RevOptDensMinHash, f64, NoHashHasher);

pub fn make_usk(kind: UKind, m: usize) -> Box<dyn USk> {
    match kind {
        UKind::SmhF32 => Box::new(SuperMinHash::<f32, u64, FnvHasher>::new(m, Default::default())),
        UKind::SmhF64 => Box::new(SuperMinHash::<f64, u64, FnvHasher>::new(m, Default::default())),
        UKind::SmhF64NoHash => Box::new(SuperMinHash::<f64, u64, NoHashHasher>::new(m, Default::default())),
        UKind::Smh2U64 => Box::new(SuperMinHash2::<u64, u64, FnvHasher>::new(m, Default::default())),
        UKind::Smh2U32 => Box::new(SuperMinHash2::<u32, u64, XxHash32>::new(m, Default::default())),
        UKind::SetU16(b, a, q) => Box::new(SetSketcher::<u16, u64, FnvHasher>::new(SetSketchParams::new(b, m as u64, a, q), Default::default())),
        UKind::SetU32(b, a, q) => Box::new(SetSketcher::<u32, u64, FnvHasher>::new(SetSketchParams::new(b, m as u64, a, q), Default::default())),
        UKind::OptF32 => Box::new(OptDensMinHash::<f32, u64, FnvHasher>::new(m, Default::default())),
        UKind::OptF64 => Box::new(OptDensMinHash::<f64, u64, FnvHasher>::new(m, Default::default())),
        UKind::RevF32 => Box::new(RevOptDensMinHash::<f32, u64, FnvHasher>::new(m, Default::default())),
        UKind::RevF64 => Box::new(RevOptDensMinHash::<f64, u64, FnvHasher>::new(m, Default::default())),
        UKind::Smh2U64NoHash => Box::new(SuperMinHash2::<u64, u64, NoHashHasher>::new(m, Default::default())),
        UKind::OptF64NoHash => Box::new(OptDensMinHash::<f64, u64, NoHashHasher>::new(m, Default::default())),
        UKind::RevF64NoHash => Box::new(RevOptDensMinHash::<f64, u64, NoHashHasher>::new(m, Default::default())),
    }
}

/// documented choice of a and q for SetSketch: a >= ln(m/eps)/b, q >= log_b(m n a / eps)
pub fn setsketch_a_q(b: f64, m: u64, nmax: f64, eps: f64) -> (f64, u64) {
    let a = ((m as f64 / eps).ln() / b).ceil().max(1.);
    let q = ((m as f64 * nmax * a / eps).ln() / b.ln()).ceil() as u64;
    (a, q)
}
