// sketcher wrappers
