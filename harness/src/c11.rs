//! C11 — ProbOrdMinHash2 selects per position independently of sequence order (exact, selected-indices hook)
use crate::common::*;
use crate::gen::*;
use fnv::FnvHasher;
use probminhash::probminhasher::probordminhash2::ProbOrdMinHash2;
use rand::Rng as _;
use rayon::prelude::*;
use serde_json::{json, Value};
use std::collections::HashMap;

/// (element, occurrence number) of every index of a sequence
pub fn pairs_of(seq: &[u64]) -> Vec<(u64, u32)> {
    let mut cnt: HashMap<u64, u32> = HashMap::new();
    seq.iter()
        .map(|e| {
            let c = cnt.entry(*e).or_insert(0);
            *c += 1;
            (*e, *c)
        })
        .collect()
}

struct Out {
    nexec: u64,
    fail: Option<(String, String)>,
    case: Value,
    tuples: Vec<(Vec<u64>, u64)>,
}

fn check_indices(m: usize, l: usize, len: usize, idx: &[u64]) -> Result<(), String> {
    if idx.len() != m * l {
        return Err(format!("selected index array has length {} instead of m*l={}", idx.len(), m * l));
    }
    for p in 0..m {
        let s = &idx[p * l..(p + 1) * l];
        for j in 0..l {
            if s[j] as usize >= len {
                return Err(format!("position {}: selected index {} is not an index of the sequence (length {})", p, s[j], len));
            }
            if j > 0 && s[j] <= s[j - 1] {
                return Err(format!("position {}: selected indices {:?} are not strictly increasing (distinct, in sequence order)", p, s));
            }
        }
    }
    Ok(())
}

fn one_case(i: u64, seed: u64) -> Out {
    if i % 6 == 5 {
        one_case_h::<probminhash::superminhasher::NoHashHasher>(i, seed, true)
    } else {
        one_case_h::<FnvHasher>(i, seed, false)
    }
}

/// `adjacent`: the hasher is a pass-through (NoHashHasher assembles the native-endian bytes big-endian, i.e. hash = swap_bytes(x)),
/// elements are chosen so that their hashes are consecutive integers (pre-hashed data given as ranks)
fn one_case_h<H: std::hash::Hasher + Default>(i: u64, seed: u64, adjacent: bool) -> Out {
    let mut rng = rng_from(mix(&[seed, i]));
    let l = match rng.random_range(0..10) {
        0..=3 => 1,
        4 | 5 => 2,
        6 | 7 => 3,
        8 => rng.random_range(4..6),
        _ => rng.random_range(6..16),
    };
    let m = [1usize, 2, 3, 8, 32, 64, 300][rng.random_range(0..7)];
    let len = rng.random_range(l..(l + 60));
    let alphabet = match rng.random_range(0..4) {
        0 => len.max(1) * 4, // mostly distinct
        1 => rng.random_range(1..=3),
        2 => (len / 3).max(1),
        _ => rng.random_range(1..=len.max(1)),
    };
    let labels: Vec<u64> = if adjacent {
        let base: u64 = rng.random_range(1..1u64 << 40);
        (0..alphabet as u64).map(|r| (base + r).swap_bytes()).collect()
    } else {
        fresh_ids(&mut rng, alphabet, 0)
    };
    let distinct_mode = !adjacent && rng.random_range(0..3) == 0;
    let seq: Vec<u64> = if distinct_mode { fresh_ids(&mut rng, len, 0) } else { (0..len).map(|_| labels[rng.random_range(0..alphabet)]).collect() };
    let case = json!({"m": m, "l": l, "len": len, "alphabet": if distinct_mode { len } else { alphabet }, "hasher": if adjacent { "NoHashHasher, consecutive hash values" } else { "FnvHasher" }, "sequence": seq.iter().take(24).collect::<Vec<_>>()});
    let mut out = Out { nexec: 0, fail: None, case, tuples: vec![] };
    let mut sk = ProbOrdMinHash2::<H>::new(m as u32, l);
    // unrelated earlier calls on the same instance
    for _ in 0..rng.random_range(0..=5) {
        let n = rng.random_range(l..l + 30);
        let other: Vec<u64> = (0..n).map(|_| if rng.random_range(0..2) == 0 { labels[rng.random_range(0..alphabet)] } else { fresh_ids(&mut rng, 1, 0)[0] }).collect();
        sk.hash_set(&other);
        out.nexec += 1;
    }
    let sig0 = sk.hash_set(&seq);
    let idx0 = sk.verif_selected_indices();
    out.nexec += 1;
    if let Err(w) = check_indices(m, l, len, &idx0) {
        out.fail = Some(("C11/indices".into(), w));
        return out;
    }
    let pairs0 = pairs_of(&seq);
    // reference: per position the set of selected pairs, and the spelled tuple
    let sel0: Vec<Vec<(u64, u32)>> = (0..m)
        .map(|p| {
            let mut v: Vec<(u64, u32)> = idx0[p * l..(p + 1) * l].iter().map(|&ix| pairs0[ix as usize]).collect();
            v.sort_unstable();
            v
        })
        .collect();
    for p in 0..m {
        out.tuples.push((idx0[p * l..(p + 1) * l].iter().map(|&ix| seq[ix as usize]).collect(), sig0[p]));
    }
    // permutations
    let mut perms: Vec<(&str, Vec<u64>)> = Vec::new();
    let mut rev = seq.clone();
    rev.reverse();
    perms.push(("reversed", rev));
    let mut rot = seq.clone();
    rot.rotate_left(rng.random_range(0..len.max(1)));
    perms.push(("rotated", rot));
    let mut sh = seq.clone();
    shuffle(&mut sh, &mut rng);
    perms.push(("shuffled", sh));
    let mut sorted = seq.clone();
    sorted.sort_unstable();
    perms.push(("sorted", sorted));
    // winners last / first: indices selected in the first run moved to the end / the beginning, keeping relative order
    let mut is_win = vec![false; len];
    for &ix in &idx0 {
        is_win[ix as usize] = true;
    }
    let losers: Vec<u64> = (0..len).filter(|&i| !is_win[i]).map(|i| seq[i]).collect();
    let winners: Vec<u64> = (0..len).filter(|&i| is_win[i]).map(|i| seq[i]).collect();
    let mut wl = losers.clone();
    wl.extend_from_slice(&winners);
    perms.push(("winners_last", wl));
    let mut wf = winners;
    wf.extend_from_slice(&losers);
    perms.push(("winners_first", wf));
    for (name, pseq) in perms {
        // occasionally an unrelated call in between
        if rng.random_range(0..4) == 0 {
            sk.hash_set(&fresh_ids(&mut rng, l + 3, 0));
            out.nexec += 1;
        }
        let sig = sk.hash_set(&pseq);
        let idx = sk.verif_selected_indices();
        out.nexec += 1;
        if let Err(w) = check_indices(m, l, len, &idx) {
            out.fail = Some(("C11/indices".into(), format!("{}: {}", name, w)));
            return out;
        }
        let pp = pairs_of(&pseq);
        for p in 0..m {
            let mut v: Vec<(u64, u32)> = idx[p * l..(p + 1) * l].iter().map(|&ix| pp[ix as usize]).collect();
            v.sort_unstable();
            if v != sel0[p] {
                out.fail = Some(("C11/selection-depends-on-order".into(), format!("position {}: the (element, occurrence) pairs selected for the {} sequence differ from those selected for the original order: {:?} vs {:?}", p, name, &v[..v.len().min(4)], &sel0[p][..sel0[p].len().min(4)])));
                return out;
            }
            if l == 1 && sig[p] != sig0[p] {
                out.fail = Some(("C11/l1-signature-not-invariant".into(), format!("l=1: position {} of the signature changes under the '{}' permutation", p, name)));
                return out;
            }
            out.tuples.push((idx[p * l..(p + 1) * l].iter().map(|&ix| pseq[ix as usize]).collect(), sig[p]));
        }
    }
    // same input again gives the same answer on the same instance
    let sig1 = sk.hash_set(&seq);
    out.nexec += 1;
    if sig1 != sig0 {
        out.fail = Some(("C11/not-repeatable".into(), "hashing the same sequence again on the same instance gives another signature".into()));
    }
    out
}

pub fn run(rep: &mut Report) {
    quiet_panics();
    rep.rule = "per case: sequence (length l..l+60, alphabet from 1 symbol to all distinct), m in {1..300}, l in 1..15; hash_set on one instance after 0-5 unrelated earlier calls, for the sequence and its reversed / rotated / shuffled / sorted / winners-last / winners-first permutations; from the selected-indices hook: per position l strictly increasing valid indices; the set of (element, occurrence) pairs per position is the same for every permutation; l=1 signatures identical; across the case the signature value and the spelled l-tuple determine each other. Distinct = digest of (m, l, sequence); non-trivial when len > l".into();
    let n: u64 = rep.tier.pick(30_000, 1_000_000);
    let seed = subseed(rep.seed, "C11", &[]);
    let only = rep.only_cell.clone();
    let res: Vec<(u64, Result<Out, String>)> = (0..n)
        .into_par_iter()
        .filter(|i| only.as_ref().map(|c| c == &format!("case{}", i) || c == "cases").unwrap_or(true))
        .map(|i| (i, catch(move || one_case(i, seed))))
        .collect();
    for (i, r) in res {
        let cell = format!("case{}", i);
        match r {
            Ok(mut o) => {
                rep.evaluations += o.nexec;
                rep.count("cases", 1);
                rep.distinct.insert(fnv64(o.case.to_string().as_bytes()));
                if i < 3 {
                    rep.sample(o.case.clone());
                }
                // tuple <-> value must be a bijection within the case (one instance, one seed)
                if o.fail.is_none() {
                    let mut t2v: HashMap<Vec<u64>, u64> = HashMap::new();
                    let mut v2t: HashMap<u64, Vec<u64>> = HashMap::new();
                    for (t, v) in o.tuples.drain(..) {
                        if let Some(prev) = t2v.insert(t.clone(), v) {
                            if prev != v {
                                o.fail = Some(("C11/signature-not-function-of-tuple".into(), format!("the same spelled tuple {:?} gives signature values {:#x} and {:#x}", &t[..t.len().min(4)], prev, v)));
                                break;
                            }
                        }
                        if let Some(prev) = v2t.insert(v, t.clone()) {
                            if prev != t {
                                o.fail = Some(("C11/signature-not-function-of-tuple".into(), format!("signature value {:#x} stands for two different spelled tuples", v)));
                                break;
                            }
                        }
                    }
                    rep.count("tuple_table_entries", t2v.len() as u64);
                }
                if let Some((k, w)) = o.fail {
                    rep.violation(&k, &cell, w, o.case);
                }
            }
            Err(p) => rep.violation("C11/panic", &cell, format!("panic: {}", p), json!({"case": i})),
        }
    }
    collect_ticks(rep);
    rep.assumptions.push("an index i of a sequence t denotes the pair (t[i], number of occurrences of t[i] in t[..=i])".into());
}
