use crate::common::*;

pub fn run(rep: &mut Report) {
    let _ = rep;
    eprintln!("C11 not implemented yet");
}
