//! C04 — unweighted sketches have set semantics (exact metamorphic monitor)
use crate::common::*;
use crate::gen::*;
use crate::sk::*;
use rand::Rng as _;
use rand::RngCore;
use rayon::prelude::*;
use serde_json::{json, Value};
use std::collections::HashSet;

pub fn kinds() -> Vec<UKind> {
    vec![
        UKind::SmhF32,
        UKind::SmhF64,
        UKind::SmhF64NoHash,
        UKind::Smh2U64,
        UKind::Smh2U32,
        UKind::SetU16(1.001, 20., 65534),
        UKind::SetU32(1.001, 20., 65534),
        UKind::SetU16(2.0, 20., 30),
        UKind::SetU16(1.2, 5., 100),
        UKind::SetU32(1.05, 30., 2000),
        UKind::SetU16(1.0001, 20., 1_000_000), // registers clip at u16::MAX
        UKind::OptF32,
        UKind::OptF64,
        UKind::RevF32,
        UKind::RevF64,
        UKind::Smh2U64NoHash,
        UKind::OptF64NoHash,
        UKind::RevF64NoHash,
    ]
}

/// full sketch through one slice call (densified sketchers finish inside)
fn by_slice(kind: UKind, m: usize, xs: &[u64]) -> Vec<u64> {
    let mut s = make_usk(kind, m);
    s.sketch_slice(xs);
    s.bits()
}

fn by_items(kind: UKind, m: usize, xs: &[u64]) -> Vec<u64> {
    let mut s = make_usk(kind, m);
    for x in xs {
        s.sketch(*x);
    }
    s.finish();
    s.bits()
}

fn by_chunks(kind: UKind, m: usize, xs: &[u64], k: usize, rng: &mut Rng) -> Vec<u64> {
    let mut s = make_usk(kind, m);
    // random cut points
    let mut cuts: Vec<usize> = (0..k.saturating_sub(1)).map(|_| rng.random_range(0..=xs.len())).collect();
    cuts.push(0);
    cuts.push(xs.len());
    cuts.sort_unstable();
    for w in cuts.windows(2) {
        if w[1] > w[0] {
            // mix slice calls and item-wise calls
            if rng.random_range(0..3) == 0 {
                for x in &xs[w[0]..w[1]] {
                    s.sketch(*x);
                }
            } else {
                s.sketch_slice(&xs[w[0]..w[1]]);
            }
        }
    }
    s.bits()
}

struct Out {
    execs: u64,
    groups: u64,
    fail: Option<(String, String)>,
    dig: u64,
    n: usize,
    case: Value,
}

fn one_stream(i: u64, seed: u64, tier: Tier) -> Out {
    let mut rng = rng_from(mix(&[seed, i]));
    let ks = kinds();
    let kind = ks[(i % ks.len() as u64) as usize];
    // distinct items
    let nd = match rng.random_range(0..10) {
        0 => 1,
        1 => rng.random_range(2..5),
        2..=5 => rng.random_range(5..200),
        6..=8 => rng.random_range(200..3000),
        _ => rng.random_range(3000..tier.pick(20_000, 100_000)),
    };
    let mut m = match rng.random_range(0..8) {
        0 => 1,
        1 => 2,
        2 | 3 => rng.random_range(3..64),
        4 | 5 => rng.random_range(64..1024),
        6 => (nd * rng.random_range(2..=10)).clamp(1, 20_000),
        _ => rng.random_range(1..=(nd.max(2))),
    };
    // a few streams use a sketch size above 2^16 with few items (positions that do not fit 16 bits)
    let huge_m = i % 97 == 5 && !kind.is_dens();
    let nd = if huge_m { rng.random_range(2..30) } else { nd };
    if huge_m {
        m = rng.random_range(65_530..70_000);
    }
    // keep the cost of a stream bounded (SuperMinHash is O(m) per item when m >> n)
    while (m as u64) * (nd as u64) > 3_000_000 && m > 4 {
        m /= 2;
    }
    if kind.is_rev() && m > 2000 {
        m = 2000; // reverse densification reseeds a ChaCha generator per bin and pass
    }
    let ids = if kind.is_nohash() && rng.random_range(0..3) > 0 { ids_with_specials(&mut rng, nd) } else { fresh_ids(&mut rng, nd, 0) };
    // stream with duplicates
    let mut stream: Vec<u64> = ids.clone();
    let ndup = match rng.random_range(0..3) {
        0 => 0,
        1 => nd / 2 + 1,
        _ => nd.min(50) * 3,
    };
    for _ in 0..ndup {
        stream.push(ids[rng.random_range(0..nd)]);
    }
    shuffle(&mut stream, &mut rng);
    let case = json!({"kind": kind.name(), "m": m, "distinct_items": nd, "stream_len": stream.len(), "first_items": &stream[..stream.len().min(8)]});
    let mut out = Out { execs: 0, groups: 0, fail: None, dig: mix(&[i, m as u64, nd as u64, digest_u64s(&ids[..nd.min(16)])]), n: nd, case };
    let base = by_slice(kind, m, &stream);
    out.execs += 1;
    let check = |name: &str, bits: Vec<u64>, out: &mut Out| {
        out.execs += 1;
        out.groups += 1;
        if out.fail.is_none() && bits != base {
            let p = (0..base.len()).find(|&p| bits.get(p) != base.get(p)).unwrap_or(0);
            out.fail = Some((format!("C04/{}", name), format!("{} m={} distinct={} : sketch differs from the one-slice sketch of the stream in entry {} of the bit image ({:#x} vs {:#x}) for variant '{}'", kind.name(), m, nd, p, bits.get(p).cloned().unwrap_or(0), base.get(p).cloned().unwrap_or(0), name)));
        }
    };
    // item-wise
    check("itemwise", by_items(kind, m, &stream), &mut out);
    // reorderings (slice and item-wise alternate)
    let mut sorted = stream.clone();
    sorted.sort_unstable();
    check("sorted", by_slice(kind, m, &sorted), &mut out);
    let mut rev = stream.clone();
    rev.reverse();
    check("reversed", by_items(kind, m, &rev), &mut out);
    let mut sh = stream.clone();
    shuffle(&mut sh, &mut rng);
    check("shuffled", by_slice(kind, m, &sh), &mut out);
    // a sketcher used before (previous stream ends with the first item of this one), then reinit
    {
        let mut s = make_usk(kind, m);
        let mut prev: Vec<u64> = fresh_ids(&mut rng, 3, 0);
        prev.push(stream[0]);
        s.sketch_slice(&prev);
        s.finish();
        s.reinit();
        s.sketch_slice(&stream);
        check("after_reinit", s.bits(), &mut out);
    }
    // dedup
    let mut dd = ids.clone();
    shuffle(&mut dd, &mut rng);
    check("deduplicated", by_slice(kind, m, &dd), &mut out);
    // every item tripled (consecutive and spread)
    let mut tr: Vec<u64> = Vec::with_capacity(3 * nd);
    for x in &dd {
        tr.push(*x);
        tr.push(*x);
    }
    tr.extend_from_slice(&dd);
    check("tripled", by_items(kind, m, &tr), &mut out);
    // chunked over several calls (not for the densified sketchers, which are finished once)
    if !kind.is_dens() {
        let k = rng.random_range(2..=8);
        check("chunked", by_chunks(kind, m, &stream, k, &mut rng), &mut out);
        let k = rng.random_range(2..=8);
        check("chunked", by_chunks(kind, m, &tr, k, &mut rng), &mut out);
    }
    // winners first / last: items whose hash is stored in the sketch (or, for value sketches of small sets, the per position
    // argmin/argmax over single-item sketches)
    let mut winners: HashSet<u64> = HashSet::new();
    {
        let mut s = make_usk(kind, m);
        s.sketch_slice(&stream);
        if let Some(hs) = s.stored_hashes() {
            let hset: HashSet<u64> = hs.into_iter().collect();
            // stored hashes must be hashes of streamed items
            let allowed: HashSet<u64> = ids.iter().map(|&d| kind.item_hash(d)).collect();
            out.groups += 1;
            if out.fail.is_none() {
                if let Some(bad) = hset.iter().find(|h| !allowed.contains(h)) {
                    out.fail = Some(("C04/foreign-hash".into(), format!("{} m={} : a position holds {:#x} which is not the hash of any streamed item", kind.name(), m, bad)));
                }
            }
            for d in &ids {
                if hset.contains(&kind.item_hash(*d)) {
                    winners.insert(*d);
                }
            }
        } else if nd <= 40 && m <= 512 {
            let is_set = matches!(kind, UKind::SetU16(..) | UKind::SetU32(..));
            let singles: Vec<Vec<u64>> = ids.iter().map(|&d| by_slice(kind, m, &[d])).collect();
            out.execs += nd as u64;
            for p in 0..m {
                let mut best = 0usize;
                for (j, s) in singles.iter().enumerate() {
                    let better = if is_set { s[p] > singles[best][p] } else { f64::from_bits(s[p]) < f64::from_bits(singles[best][p]) };
                    if better {
                        best = j;
                    }
                }
                winners.insert(ids[best]);
            }
        }
    }
    if !winners.is_empty() && winners.len() < nd {
        let (mut w, mut l): (Vec<u64>, Vec<u64>) = stream.iter().partition(|x| winners.contains(x));
        shuffle(&mut w, &mut rng);
        shuffle(&mut l, &mut rng);
        let mut wl = l.clone();
        wl.extend_from_slice(&w);
        check("winners_last", by_items(kind, m, &wl), &mut out);
        let mut wf = w.clone();
        wf.extend_from_slice(&l);
        check("winners_first", by_slice(kind, m, &wf), &mut out);
    }
    out
}

/// targeted workload for exact ties of the f32 densified sketchers: very many items per bin
fn tie_stream(i: u64, seed: u64, n: usize) -> Out {
    let mut rng = rng_from(mix(&[seed, i, 99]));
    let kind = if i % 2 == 0 { UKind::OptF32 } else { UKind::RevF32 };
    let m = [1usize, 1, 2][(i % 3) as usize];
    let ids = fresh_ids(&mut rng, n, 0);
    let base = by_slice(kind, m, &ids);
    let mut rev = ids.clone();
    rev.reverse();
    let other = by_slice(kind, m, &rev);
    let mut out = Out { execs: 2, groups: 1, fail: None, dig: mix(&[i, 99, digest_u64s(&ids[..16])]), n, case: json!({"kind": kind.name(), "m": m, "distinct_items": n, "note": "stream and its reverse; seed-derived ids", "stream_index": i}) };
    if base != other {
        let p = (0..base.len()).find(|&p| base[p] != other[p]).unwrap_or(0);
        out.fail = Some(("C04/dens-f32-tie".into(), format!("{} m={} n={}: reversing the stream changes entry {} of the bit image ({:#x} vs {:#x}); float views equal: {}", kind.name(), m, n, p, base[p], other[p], base[..m] == other[..m])));
    }
    out
}

/// long-lived instance: one sketcher processes several hundred thousand calls on few distinct items (reinit between rounds), so that
/// every per-call or per-reset counter of the implementation passes 2^16 and 2^17; each round is compared with a fresh sketch of the
/// distinct items
fn long_stream(i: u64, seed: u64, calls: usize) -> Out {
    let mut rng = rng_from(mix(&[seed, i, 0x10a6]));
    let ks = kinds();
    let kind = ks[(i % ks.len() as u64) as usize];
    let m = [4usize, 8, 16, 64, 256, 3, 33][((i / ks.len() as u64) % 7) as usize];
    let mut s = make_usk(kind, m);
    let mut out = Out { execs: 0, groups: 0, fail: None, dig: mix(&[i, 0x10a6, m as u64]), n: 2, case: json!({"kind": kind.name(), "m": m, "calls_per_round": calls, "long_stream_index": i}) };
    let mut total = 0usize;
    for round in 0..3 {
        let nd = rng.random_range(2..40usize);
        let ids = fresh_ids(&mut rng, nd, 0);
        let want = by_slice(kind, m, &ids);
        if round > 0 {
            s.reinit();
        }
        for x in &ids {
            s.sketch(*x);
        }
        // repetitions: runs of one item and random picks
        let mut done = nd;
        while done < calls {
            let x = ids[rng.random_range(0..nd)];
            let run = if rng.random_range(0..4) == 0 { rng.random_range(1..3000usize) } else { 1 };
            for _ in 0..run {
                s.sketch(x);
            }
            done += run;
        }
        total += done;
        s.finish();
        out.execs += 2;
        out.groups += 1;
        let got = s.bits();
        if out.fail.is_none() && got != want {
            let p = (0..want.len()).find(|&p| got.get(p) != want.get(p)).unwrap_or(0);
            out.fail = Some(("C04/long-lived".into(), format!("{} m={} : after {} calls on one instance (round {}, {} distinct items, repetitions only) the sketch differs from the fresh sketch of the distinct items in entry {} of the bit image ({:#x} vs {:#x})", kind.name(), m, total, round, nd, p, got.get(p).cloned().unwrap_or(0), want[p])));
        }
    }
    out
}

pub fn run(rep: &mut Report) {
    quiet_panics();
    rep.rule = "per random stream (1..1e5 distinct items, duplicates, sketch size 1..10x the stream; one stream in 97 has a sketch size in 65530..70000) and sketcher (SuperMinHash f32/f64/NoHash, SuperMinHash2 u64/u32, SetSketch u16/u32 with 6 parameter tuples, Opt/RevOpt densification f32/f64 with all three views): the one-slice sketch is compared bit for bit with item-wise, sorted, reversed, shuffled, deduplicated, tripled, chunked (2-8 calls mixing slice and item calls) and winners-first/last executions; stored hashes must be hashes of streamed items. Targeted leg: f32 densified sketchers with >= 1e5 items per bin, stream vs reversed stream (exact ties of the minimum). f32 boundary leg: 6e5 / 6e6 single-item SuperMinHash<f32> sketches are scanned for a value that sits exactly on an integer; each such item is streamed before and after 2000 second items. Long-lived leg: one instance per (kind, m) takes 3 rounds of >= 7e4 (thorough 3e5) calls on 2..40 distinct items with reinit between rounds (counters of the implementation pass 2^16, 2^17), each round compared with the fresh sketch of the distinct items. Distinct = digest of (kind, m, items); non-trivial when >= 2 distinct items".into();
    let nstreams: u64 = rep.tier.pick(3000, 60_000);
    let seed = subseed(rep.seed, "C04/streams", &[]);
    let tier = rep.tier;
    let only = rep.only_cell.clone();
    let outs: Vec<(u64, Result<Out, String>)> = (0..nstreams)
        .into_par_iter()
        .filter(|i| only.as_ref().map(|c| c == &format!("stream{}", i) || c == "streams").unwrap_or(true))
        .map(|i| (i, catch(move || one_stream(i, seed, tier))))
        .collect();
    for (i, o) in outs {
        match o {
            Ok(o) => {
                rep.evaluations += o.execs;
                rep.count("streams", 1);
                rep.count("groups_compared", o.groups);
                if o.n >= 2 {
                    rep.distinct.insert(o.dig);
                }
                if i < 4 {
                    rep.sample(o.case.clone());
                }
                if let Some((key, what)) = o.fail {
                    rep.violation(&key, &format!("stream{}", i), what, o.case);
                }
            }
            Err(p) => rep.violation("C04/panic", &format!("stream{}", i), format!("panic: {}", p), json!({"stream": i})),
        }
    }
    // targeted f32 tie leg
    let nties: u64 = rep.tier.pick(160, 3000);
    let ntie_items = rep.tier.pick(400_000, 600_000);
    let outs: Vec<(u64, Result<Out, String>)> = (0..nties)
        .into_par_iter()
        .filter(|i| only.as_ref().map(|c| c == &format!("tie{}", i) || c == "ties").unwrap_or(true))
        .map(|i| (i, catch(move || tie_stream(i, seed, ntie_items))))
        .collect();
    for (i, o) in outs {
        match o {
            Ok(o) => {
                rep.evaluations += o.execs;
                rep.count("tie_streams", 1);
                rep.distinct.insert(o.dig);
                if let Some((key, what)) = o.fail {
                    rep.violation(&key, &format!("tie{}", i), what, o.case);
                }
            }
            Err(p) => rep.violation("C04/panic", &format!("tie{}", i), format!("panic: {}", p), json!({"tie_stream": i})),
        }
    }
    // ---- targeted search (f32 SuperMinHash): an item one of whose values sits exactly on an integer (r + j rounded up to j + 1)
    // would be counted in the wrong level of the algorithm's bookkeeping; every such item found is streamed before and after
    // many second items (on the unchanged tree none is found and the leg only reports the number of items scanned)
    if only.as_ref().map(|c| c == "f32-boundary").unwrap_or(true) {
        let nscan: u64 = rep.tier.pick(600_000, 6_000_000);
        for m in [8usize, 16, 64] {
            let found: Vec<u64> = (0..64u64)
                .into_par_iter()
                .flat_map_iter(|c| {
                    let mut rng = rng_from(mix(&[seed, m as u64, c, 0xf32b]));
                    let mut out = Vec::new();
                    for _ in 0..nscan / 64 / 3 {
                        let d = fresh_ids(&mut rng, 1, 0)[0];
                        let bits = by_slice(UKind::SmhF32, m, &[d]);
                        if bits[..m].iter().any(|b| {
                            let v = f64::from_bits(*b);
                            v.fract() == 0. && v >= 1.
                        }) {
                            out.push(d);
                        }
                    }
                    out
                })
                .collect();
            rep.evaluations += nscan / 3;
            rep.count("f32_boundary.items_scanned", nscan / 3);
            rep.count("f32_boundary.items_with_integral_value", found.len() as u64);
            for first in found.iter().take(40) {
                let mut rng = rng_from(mix(&[seed, *first]));
                for _ in 0..2000 {
                    let second = fresh_ids(&mut rng, 1, 0)[0];
                    rep.evaluations += 2;
                    let (x, y) = (by_items(UKind::SmhF32, m, &[*first, second]), by_items(UKind::SmhF32, m, &[second, *first]));
                    if x != y {
                        let p = (0..x.len()).find(|&p| x[p] != y[p]).unwrap_or(0);
                        rep.violation("C04/reversed", "f32-boundary", format!("SmhF32 m={}: the streams [{}, {}] and [{}, {}] give different sketches (entry {} of the bit image: {:#x} vs {:#x}); the first item has a value that sits exactly on an integer", m, first, second, second, first, p, x[p], y[p]), json!({"kind": "SmhF32", "m": m, "items": [first, second]}));
                        break;
                    }
                }
            }
        }
    }
    // long-lived instances
    let nlong: u64 = rep.tier.pick(7 * kinds().len() as u64, 28 * kinds().len() as u64);
    let calls = rep.tier.pick(70_000, 300_000);
    let outs: Vec<(u64, Result<Out, String>)> = (0..nlong)
        .into_par_iter()
        .filter(|i| only.as_ref().map(|c| c == &format!("long{}", i) || c == "longs").unwrap_or(true))
        .map(|i| (i, catch(move || long_stream(i, seed, calls))))
        .collect();
    for (i, o) in outs {
        match o {
            Ok(o) => {
                rep.evaluations += o.execs;
                rep.count("long_lived_instances", 1);
                rep.count("groups_compared", o.groups);
                rep.distinct.insert(o.dig);
                if let Some((key, what)) = o.fail {
                    rep.violation(&key, &format!("long{}", i), what, o.case);
                }
            }
            Err(p) => rep.violation("C04/panic", &format!("long{}", i), format!("panic: {}", p), json!({"long_stream": i})),
        }
    }
    collect_ticks(rep);
    rep.assumptions.push("BuildHasherDefault::<H>::default().hash_one(item) is the reference hash of an item".into());
}
