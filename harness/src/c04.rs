use crate::common::*;

pub fn run(rep: &mut Report) {
    let _ = rep;
    eprintln!("C04 not implemented yet");
}
