use crate::common::*;

pub fn run(rep: &mut Report) {
    let _ = rep;
    eprintln!("C14 not implemented yet");
}
pub fn child_mle(_a: &[String]) -> i32 { 2 }
