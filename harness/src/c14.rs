//! C14 — similarity estimators are total, symmetric and exact on their inputs
use crate::common::*;
use crate::gen::*;
use crate::sk::setsketch_a_q;
use fnv::FnvHasher;
use probminhash::jaccard;
use probminhash::setsketcher::{MleJaccard, SetSketchParams, SetSketcher};
use probminhash::superminhasher::{self, SuperMinHash};
use probminhash::superminhasher2::{self, SuperMinHash2};
use rand::Rng as _;
use rand::RngCore;
use rayon::prelude::*;
use serde_json::{json, Value};

/// outcome of an estimator call
#[derive(Debug, Clone, PartialEq)]
enum R {
    Num(f64),
    /// returned value had type f32
    Num32(f32),
    Reported, // Err or panic
}

fn call<F: FnOnce() -> Option<f64> + std::panic::UnwindSafe>(f: F) -> R {
    match catch(f) {
        Ok(Some(x)) => R::Num(x),
        Ok(None) => R::Reported,
        Err(_) => R::Reported,
    }
}
fn call32<F: FnOnce() -> Option<f32> + std::panic::UnwindSafe>(f: F) -> R {
    match catch(f) {
        Ok(Some(x)) => R::Num32(x),
        Ok(None) => R::Reported,
        Err(_) => R::Reported,
    }
}

fn ulp32(x: f32) -> f64 {
    let b = x.to_bits();
    if x == 0. {
        return f32::from_bits(1) as f64;
    }
    let up = f32::from_bits(b + 1);
    (up as f64 - x as f64).abs()
}

/// judge a result against agreements / length
fn judge(name: &str, r: &R, agree: usize, len: usize) -> Result<(), String> {
    let q = agree as f64 / len as f64;
    match r {
        R::Num(x) => {
            if x.to_bits() != q.to_bits() {
                return Err(format!("{} returned {} but agreements/length = {}/{} = {}", name, x, agree, len, q));
            }
        }
        R::Num32(x) => {
            let d = (*x as f64 - q).abs();
            if !(d <= 0.5 * ulp32(*x) * (1. + 1e-9)) || !x.is_finite() {
                return Err(format!("{} returned the f32 {} which is not the f32 nearest to {}/{} = {}", name, x, agree, len, q));
            }
        }
        R::Reported => return Err(format!("{} reported an error on two sketches of equal length {}", name, len)),
    }
    Ok(())
}

fn judge_mismatch(name: &str, r: &R, la: usize, lb: usize) -> Result<(), String> {
    match r {
        R::Reported => Ok(()),
        other => Err(format!("{} computed {:?} on sketches of unequal lengths {} and {} instead of reporting the mismatch", name, other, la, lb)),
    }
}

/// plant agreements: returns b derived from a with `pattern`, and the number of agreements
fn plant<T: Clone + PartialEq>(a: &[T], alt: &[T], pattern: u32, rng: &mut Rng) -> (Vec<T>, usize) {
    let n = a.len();
    let mut b: Vec<T> = alt.to_vec();
    let mut agree_at = vec![false; n];
    match pattern {
        0 => {}                                          // none
        1 => agree_at.iter_mut().for_each(|x| *x = true), // all
        2 => agree_at[0] = true,                          // first only
        3 => agree_at[n - 1] = true,                      // last only
        4 => {
            // all but last
            agree_at.iter_mut().for_each(|x| *x = true);
            agree_at[n - 1] = false;
        }
        5 => {
            agree_at.iter_mut().for_each(|x| *x = true);
            agree_at[0] = false;
        }
        _ => {
            let p = rng.random::<f64>();
            for x in agree_at.iter_mut() {
                *x = rng.random::<f64>() < p;
            }
        }
    }
    for i in 0..n {
        if agree_at[i] {
            b[i] = a[i].clone();
        }
    }
    // alt[i] != a[i] is guaranteed by the callers, so the count is exact
    let cnt = agree_at.iter().filter(|x| **x).count();
    (b, cnt)
}

struct Out {
    ncalls: u64,
    fails: Vec<(String, String)>,
    case: Value,
}

fn counting_case(i: u64, seed: u64) -> Out {
    let mut rng = rng_from(mix(&[seed, i]));
    let n: usize = match rng.random_range(0..8) {
        0 => 1,
        1 => 2,
        2 => 3,
        3 | 4 => rng.random_range(4..100),
        5 | 6 => rng.random_range(100..1000),
        _ => rng.random_range(1000..5001),
    };
    let pattern = rng.random_range(0..9u32);
    let pname = ["none", "all", "first_only", "last_only", "all_but_last", "all_but_first", "random", "random", "random"][pattern as usize];
    let mut out = Out { ncalls: 0, fails: vec![], case: json!({"length": n, "pattern": pname, "element_type_round": i % 6}) };
    macro_rules! chk {
        ($key:expr, $res:expr) => {
            out.ncalls += 1;
            if let Err(w) = $res {
                out.fails.push(($key.to_string(), w));
            }
        };
    }
    // a longer / shorter partner for the mismatch clause
    let n2: usize = if rng.random_range(0..2) == 0 { n + rng.random_range(1..4usize) } else { n.saturating_sub(rng.random_range(1..4usize)).max(if n > 1 { 1 } else { 2 }) };
    match i % 6 {
        0 => {
            // u64 items
            let mut a: Vec<u64> = (0..n).map(|_| rng.next_u64() | 1).collect();
            // values with a special role somewhere in the crate (initial values, sentinels) are legal sketch values too
            if rng.random_range(0..2) == 0 {
                for sp in [0u64, u64::MAX, 1, u32::MAX as u64] {
                    let k = rng.random_range(0..n);
                    a[k] = sp;
                }
            }
            let alt: Vec<u64> = a.iter().map(|x| x ^ 0x10).collect();
            let (b, cnt) = plant(&a, &alt, pattern, &mut rng);
            let c: Vec<u64> = (0..n2).map(|k| if k < n { a[k] } else { 7 }).collect();
            let (a1, b1) = (a.clone(), b.clone());
            chk!("C14/compute_probminhash_jaccard", judge("jaccard::compute_probminhash_jaccard", &call(move || Some(jaccard::compute_probminhash_jaccard(&a1, &b1))), cnt, n));
            let (a1, b1) = (a.clone(), b.clone());
            chk!("C14/compute_probminhash_jaccard", judge("jaccard::compute_probminhash_jaccard (swapped)", &call(move || Some(jaccard::compute_probminhash_jaccard(&b1, &a1))), cnt, n));
            let a1 = a.clone();
            chk!("C14/compute_probminhash_jaccard", judge("jaccard::compute_probminhash_jaccard (identical)", &call(move || Some(jaccard::compute_probminhash_jaccard(&a1, &a1))), n, n));
            let (a1, c1) = (a.clone(), c.clone());
            chk!("C14/length-mismatch", judge_mismatch("jaccard::compute_probminhash_jaccard", &call(move || Some(jaccard::compute_probminhash_jaccard(&a1, &c1))), n, n2));
            let (a1, b1) = (a.clone(), b.clone());
            chk!("C14/jaccard::get_jaccard_index_estimate", judge("jaccard::get_jaccard_index_estimate", &call(move || jaccard::get_jaccard_index_estimate(&a1, &b1).ok()), cnt, n));
            let (a1, c1) = (a.clone(), c.clone());
            chk!("C14/length-mismatch", judge_mismatch("jaccard::get_jaccard_index_estimate", &call(move || jaccard::get_jaccard_index_estimate(&c1, &a1).ok()), n2, n));
            // superminhasher2 free functions (f32 result)
            let (a1, b1) = (a.clone(), b.clone());
            chk!("C14/superminhasher2::compute_superminhash_jaccard", judge("superminhasher2::compute_superminhash_jaccard", &call32(move || superminhasher2::compute_superminhash_jaccard(&a1, &b1).ok()), cnt, n));
            let (a1, b1) = (a.clone(), b.clone());
            chk!("C14/superminhasher2::get_jaccard_index_estimate", judge("superminhasher2::get_jaccard_index_estimate", &call32(move || superminhasher2::get_jaccard_index_estimate(&b1, &a1).ok()), cnt, n));
            let (a1, c1) = (a.clone(), c.clone());
            chk!("C14/length-mismatch", judge_mismatch("superminhasher2::compute_superminhash_jaccard", &call32(move || superminhasher2::compute_superminhash_jaccard(&a1, &c1).ok()), n, n2));
        }
        1 => {
            // Strings as items
            let a: Vec<String> = (0..n).map(|k| format!("item{}-{}", k, rng.next_u32())).collect();
            let alt: Vec<String> = a.iter().map(|x| format!("{}x", x)).collect();
            let (b, cnt) = plant(&a, &alt, pattern, &mut rng);
            let (a1, b1) = (a.clone(), b.clone());
            chk!("C14/compute_probminhash_jaccard", judge("jaccard::compute_probminhash_jaccard<String>", &call(move || Some(jaccard::compute_probminhash_jaccard(&a1, &b1))), cnt, n));
            let (a1, b1) = (a.clone(), b.clone());
            chk!("C14/jaccard::get_jaccard_index_estimate", judge("jaccard::get_jaccard_index_estimate<String>", &call(move || jaccard::get_jaccard_index_estimate(&b1, &a1).ok()), cnt, n));
        }
        2 => {
            // u16 / u32 registers
            let mut a: Vec<u16> = (0..n).map(|_| (rng.next_u32() as u16) | 1).collect();
            if rng.random_range(0..2) == 0 {
                for sp in [0u16, u16::MAX, 1] {
                    let k = rng.random_range(0..n);
                    a[k] = sp;
                }
            }
            let alt: Vec<u16> = a.iter().map(|x| x ^ 2).collect();
            let (b, cnt) = plant(&a, &alt, pattern, &mut rng);
            let (a1, b1) = (a.clone(), b.clone());
            chk!("C14/jaccard::get_jaccard_index_estimate", judge("jaccard::get_jaccard_index_estimate<u16>", &call(move || jaccard::get_jaccard_index_estimate(&a1, &b1).ok()), cnt, n));
            let a32: Vec<u32> = a.iter().map(|x| *x as u32 * 65537).collect();
            let b32: Vec<u32> = b.iter().map(|x| *x as u32 * 65537).collect();
            let (a1, b1) = (a32.clone(), b32.clone());
            chk!("C14/superminhasher2::compute_superminhash_jaccard", judge("superminhasher2::compute_superminhash_jaccard<u32>", &call32(move || superminhasher2::compute_superminhash_jaccard(&a1, &b1).ok()), cnt, n));
            let (a1, b1) = (a32.clone(), b32.clone());
            chk!("C14/compute_probminhash_jaccard", judge("jaccard::compute_probminhash_jaccard<u32>", &call(move || Some(jaccard::compute_probminhash_jaccard(&b1, &a1))), cnt, n));
        }
        3 => {
            // f64 sketches through the SuperMinHash free functions and the method
            // sketch-like values; in half of the cases all below 1 (as for sets much larger than the sketch) with the "different"
            // partner only one unit in the last place away: nearly equal is not equal
            let small = rng.random_range(0..2) == 0;
            let mut a: Vec<f64> = (0..n).map(|k| if small { rng.random::<f64>() } else { k as f64 + rng.random::<f64>() }).collect();
            if rng.random_range(0..2) == 0 {
                for sp in [0f64, 1., n as f64, u32::MAX as f64] {
                    let k = rng.random_range(0..n);
                    a[k] = sp;
                }
            }
            let alt: Vec<f64> = a.iter().map(|x| if small { f64::from_bits(x.to_bits() + 1 + (x.to_bits() & 1)) } else { x + 0.25 }).collect();
            let (b, cnt) = plant(&a, &alt, pattern, &mut rng);
            let c: Vec<f64> = (0..n2).map(|k| if k < n { a[k] } else { 0.5 }).collect();
            let (a1, b1) = (a.clone(), b.clone());
            chk!("C14/superminhasher::compute_superminhash_jaccard", judge("superminhasher::compute_superminhash_jaccard<f64>", &call(move || superminhasher::compute_superminhash_jaccard(&a1, &b1).ok()), cnt, n));
            let (a1, b1) = (a.clone(), b.clone());
            chk!("C14/superminhasher::get_jaccard_index_estimate", judge("superminhasher::get_jaccard_index_estimate<f64>", &call(move || superminhasher::get_jaccard_index_estimate(&b1, &a1).ok()), cnt, n));
            let (a1, c1) = (a.clone(), c.clone());
            chk!("C14/length-mismatch", judge_mismatch("superminhasher::compute_superminhash_jaccard", &call(move || superminhasher::compute_superminhash_jaccard(&a1, &c1).ok()), n, n2));
            let (a1, b1) = (a.clone(), b.clone());
            chk!("C14/jaccard::get_jaccard_index_estimate", judge("jaccard::get_jaccard_index_estimate<f64>", &call(move || jaccard::get_jaccard_index_estimate(&a1, &b1).ok()), cnt, n));
        }
        4 => {
            // f32 sketches (f32 result)
            let small = rng.random_range(0..2) == 0;
            let mut a: Vec<f32> = (0..n).map(|k| if small { rng.random::<f32>() } else { k as f32 + 0.5 * rng.random::<f32>() }).collect();
            if rng.random_range(0..2) == 0 {
                for sp in [0f32, 1., n as f32] {
                    let k = rng.random_range(0..n);
                    a[k] = sp;
                }
            }
            let alt: Vec<f32> = a.iter().map(|x| if small { f32::from_bits(x.to_bits() + 1) } else { x + 0.25 }).collect();
            let (b, cnt) = plant(&a, &alt, pattern, &mut rng);
            let (a1, b1) = (a.clone(), b.clone());
            chk!("C14/superminhasher::compute_superminhash_jaccard", judge("superminhasher::compute_superminhash_jaccard<f32>", &call32(move || superminhasher::compute_superminhash_jaccard(&a1, &b1).ok()), cnt, n));
            let (a1, b1) = (a.clone(), b.clone());
            chk!("C14/superminhasher::get_jaccard_index_estimate", judge("superminhasher::get_jaccard_index_estimate<f32>", &call32(move || superminhasher::get_jaccard_index_estimate(&b1, &a1).ok()), cnt, n));
            let a1 = a.clone();
            chk!("C14/superminhasher::compute_superminhash_jaccard", judge("superminhasher::compute_superminhash_jaccard<f32> (identical)", &call32(move || superminhasher::compute_superminhash_jaccard(&a1, &a1).ok()), n, n));
        }
        _ => {
            // methods on the sketchers: the receiver's sketch comes from really sketching items
            let m = n.min(2000);
            let nitems = rng.random_range(1..50);
            let items = fresh_ids(&mut rng, nitems, 0);
            let mut s1 = SuperMinHash::<f64, u64, FnvHasher>::new(m, Default::default());
            s1.sketch_slice(&items).unwrap();
            let a: Vec<f64> = s1.get_hsketch().clone();
            let alt: Vec<f64> = a.iter().map(|x| if i % 12 == 5 { f64::from_bits(x.to_bits() + 1) } else { x + 0.125 }).collect();
            let (b, cnt) = plant(&a, &alt, pattern.min(8), &mut rng);
            chk!("C14/SuperMinHash::get_jaccard_index_estimate", judge("SuperMinHash::get_jaccard_index_estimate", &call(std::panic::AssertUnwindSafe(|| s1.get_jaccard_index_estimate(&b).ok())), cnt, m));
            let mut longer = b.clone();
            longer.push(1.5);
            chk!("C14/length-mismatch", judge_mismatch("SuperMinHash::get_jaccard_index_estimate", &call(std::panic::AssertUnwindSafe(|| s1.get_jaccard_index_estimate(&longer).ok())), m, m + 1));
            if m > 1 {
                chk!("C14/length-mismatch", judge_mismatch("SuperMinHash::get_jaccard_index_estimate", &call(std::panic::AssertUnwindSafe(|| s1.get_jaccard_index_estimate(&b[..m - 1]).ok())), m, m - 1));
            }
            let mut s2 = SuperMinHash2::<u64, u64, FnvHasher>::new(m, Default::default());
            s2.sketch_slice(&items).unwrap();
            let a2: Vec<u64> = s2.get_hsketch().clone();
            let alt2: Vec<u64> = a2.iter().map(|x| x ^ 1).collect();
            let (b2, cnt2) = plant(&a2, &alt2, pattern.min(8), &mut rng);
            chk!("C14/SuperMinHash2::get_jaccard_index_estimate", judge("SuperMinHash2::get_jaccard_index_estimate", &call(std::panic::AssertUnwindSafe(|| s2.get_jaccard_index_estimate(&b2).ok())), cnt2, m));
            let mut longer2 = b2.clone();
            longer2.push(3);
            chk!("C14/length-mismatch", judge_mismatch("SuperMinHash2::get_jaccard_index_estimate", &call(std::panic::AssertUnwindSafe(|| s2.get_jaccard_index_estimate(&longer2).ok())), m, m + 1));
            // the f32 sketcher's method returns an f64: the ratio must be the f64 ratio, not one rounded through f32
            let mut s3 = SuperMinHash::<f32, u64, FnvHasher>::new(m, Default::default());
            s3.sketch_slice(&items).unwrap();
            let a3: Vec<f32> = s3.get_hsketch().clone();
            let alt3: Vec<f32> = a3.iter().map(|x| x + 0.125).collect();
            let (b3, cnt3) = plant(&a3, &alt3, pattern.min(8), &mut rng);
            chk!("C14/SuperMinHash::get_jaccard_index_estimate", judge("SuperMinHash<f32>::get_jaccard_index_estimate", &call(std::panic::AssertUnwindSafe(|| s3.get_jaccard_index_estimate(&b3).ok())), cnt3, m));
        }
    }
    out
}

// ------------------------------------------------------------------------------------------------
// MLE: runs in a child process (the optimiser logs every iteration to the terminal, and an abort must not kill the monitor)

fn mle_cases(seed: u64, n: usize) -> Vec<(f64, u64, &'static str, usize, usize, usize, bool)> {
    // (b, m, shape, both, a_only, b_only, u16)
    let shapes: Vec<(&str, usize, usize, usize)> = vec![
        ("nested_1_in_2", 1, 0, 1),
        ("nested_1_in_4", 1, 0, 3),
        ("nested_100_in_10000", 100, 0, 9900),
        ("nested_half", 500, 0, 500),
        ("one_vs_100000", 1, 0, 100_000),
        ("identical", 300, 0, 0),
        ("identical_single", 1, 0, 0),
        ("disjoint", 0, 400, 600),
        ("disjoint_small", 0, 3, 5),
        ("disjoint_equal_sizes", 0, 5000, 5000),
        ("disjoint_very_unequal", 0, 10, 20_000),
        ("disjoint_singletons", 0, 1, 1),
        ("one_common", 1, 700, 900),
        ("ordinary", 1000, 1000, 1000),
        ("low_j", 50, 2000, 3000),
        ("high_j", 2000, 30, 20),
        ("small_unequal", 2, 1, 30),
        ("empty_vs_some", 0, 0, 40),
        ("empty_vs_empty", 0, 0, 0),
    ];
    let mut rng = rng_from(seed);
    let mut v = Vec::new();
    for i in 0..n {
        let b = [1.001, 1.1, 1.5, 2.0][i % 4];
        let m = [64u64, 256, 4096, 16, 128, 512][(i / 4) % 6];
        let s = &shapes[(i / 24 + rng.random_range(0..shapes.len())) % shapes.len()];
        v.push((b, m, s.0, s.1, s.2, s.3, rng.random_range(0..2) == 0));
    }
    v
}

pub fn child_mle(a: &[String]) -> i32 {
    quiet_panics();
    let seed: u64 = a.first().and_then(|s| s.parse().ok()).unwrap_or(1);
    let n: usize = a.get(1).and_then(|s| s.parse().ok()).unwrap_or(10);
    let cases = mle_cases(seed, n);
    let mut rng = rng_from(mix(&[seed, 77]));
    for (i, (b, m, shape, both, ao, bo, u16reg)) in cases.iter().enumerate() {
        let ntot = both + ao + bo;
        let (av, q) = setsketch_a_q(*b, *m, ntot.max(1) as f64, 1e-6);
        let q = if *u16reg { q.min(65534) } else { q };
        let params = SetSketchParams::new(*b, *m, av, q);
        let ids = fresh_ids(&mut rng, ntot, 0);
        let sa: Vec<u64> = ids[..both + ao].to_vec();
        let mut sb: Vec<u64> = ids[..*both].to_vec();
        sb.extend_from_slice(&ids[both + ao..]);
        let mle = MleJaccard::from(params);
        let res = if *u16reg {
            let mut s1 = SetSketcher::<u16, u64, FnvHasher>::new(params, Default::default());
            let mut s2 = SetSketcher::<u16, u64, FnvHasher>::new(params, Default::default());
            for x in &sa {
                s1.sketch(x).unwrap();
            }
            for x in &sb {
                s2.sketch(x).unwrap();
            }
            let (g1, g2) = (s1.get_signature().clone(), s2.get_signature().clone());
            (catch(std::panic::AssertUnwindSafe(|| mle.get_mle(&g1, &g2))), catch(std::panic::AssertUnwindSafe(|| mle.get_mle(&g2, &g1))))
        } else {
            let mut s1 = SetSketcher::<u32, u64, FnvHasher>::new(params, Default::default());
            let mut s2 = SetSketcher::<u32, u64, FnvHasher>::new(params, Default::default());
            for x in &sa {
                s1.sketch(x).unwrap();
            }
            for x in &sb {
                s2.sketch(x).unwrap();
            }
            let (g1, g2) = (s1.get_signature().clone(), s2.get_signature().clone());
            (catch(std::panic::AssertUnwindSafe(|| mle.get_mle(&g1, &g2))), catch(std::panic::AssertUnwindSafe(|| mle.get_mle(&g2, &g1))))
        };
        for (dir, r) in [("ab", res.0), ("ba", res.1)] {
            let txt = match r {
                Ok(Some(x)) => format!("SOME {:e}", x),
                Ok(None) => "NONE".to_string(),
                Err(msg) => format!("PANIC {}", msg.replace('\n', " ")),
            };
            println!("\nMLERES {} {} b={} m={} shape={} both={} a_only={} b_only={} regs={} :: {}", i, dir, b, m, shape, both, ao, bo, if *u16reg { "u16" } else { "u32" }, txt);
        }
    }
    println!("\nMLEDONE {}", cases.len());
    0
}

/// length-mismatch clause in a build WITHOUT debug assertions (run by the tool leg from the `nodebug` profile): every counting
/// estimator is called on sketches of unequal lengths, in both argument orders; a returned number is printed as accepted.
pub fn child_mismatch(a: &[String]) -> i32 {
    quiet_panics();
    let seed: u64 = a.first().and_then(|s| s.parse().ok()).unwrap_or(1);
    let mut rng = rng_from(mix(&[seed, 0xC14]));
    let mut ncalls = 0u64;
    let mut naccepted = 0u64;
    macro_rules! probe {
        ($name:expr, $n1:expr, $n2:expr, $e:expr) => {{
            ncalls += 1;
            let r: Result<Option<f64>, String> = catch(std::panic::AssertUnwindSafe(|| $e));
            if let Ok(Some(v)) = r {
                naccepted += 1;
                println!("C14MISMATCH-ACCEPTED {} lengths {} and {} returned {:e}", $name, $n1, $n2, v);
            }
        }};
    }
    for _ in 0..200 {
        let n1 = rng.random_range(1..300usize);
        let n2 = if rng.random_range(0..2) == 0 { n1 + rng.random_range(1..5usize) } else { n1 + rng.random_range(5..200usize) };
        let long: Vec<u64> = (0..n2).map(|_| rng.next_u64() | 1).collect();
        let short: Vec<u64> = long[..n1].to_vec();
        for (x, y, nx, ny) in [(&short, &long, n1, n2), (&long, &short, n2, n1)] {
            probe!("jaccard::compute_probminhash_jaccard<u64>", nx, ny, Some(jaccard::compute_probminhash_jaccard(x, y)));
            probe!("jaccard::get_jaccard_index_estimate<u64>", nx, ny, jaccard::get_jaccard_index_estimate(x, y).ok());
            probe!("superminhasher2::compute_superminhash_jaccard<u64>", nx, ny, superminhasher2::compute_superminhash_jaccard(x, y).ok().map(|v| v as f64));
            probe!("superminhasher2::get_jaccard_index_estimate<u64>", nx, ny, superminhasher2::get_jaccard_index_estimate(x, y).ok().map(|v| v as f64));
        }
        let longf: Vec<f64> = (0..n2).map(|k| k as f64 + rng.random::<f64>()).collect();
        let shortf: Vec<f64> = longf[..n1].to_vec();
        for (x, y, nx, ny) in [(&shortf, &longf, n1, n2), (&longf, &shortf, n2, n1)] {
            probe!("superminhasher::compute_superminhash_jaccard<f64>", nx, ny, superminhasher::compute_superminhash_jaccard(x, y).ok());
            probe!("superminhasher::get_jaccard_index_estimate<f64>", nx, ny, superminhasher::get_jaccard_index_estimate(x, y).ok());
            probe!("jaccard::get_jaccard_index_estimate<f64>", nx, ny, jaccard::get_jaccard_index_estimate(x, y).ok());
        }
        // methods on the sketchers
        let items = fresh_ids(&mut rng, 5, 0);
        let mut s1 = SuperMinHash::<f64, u64, FnvHasher>::new(n1, Default::default());
        s1.sketch_slice(&items).unwrap();
        probe!("SuperMinHash::get_jaccard_index_estimate", n1, n2, s1.get_jaccard_index_estimate(&longf).ok());
        let mut s2 = SuperMinHash2::<u64, u64, FnvHasher>::new(n2, Default::default());
        s2.sketch_slice(&items).unwrap();
        probe!("SuperMinHash2::get_jaccard_index_estimate", n2, n1, s2.get_jaccard_index_estimate(&short).ok().map(|v| v as f64));
    }
    println!("C14MISMATCHDONE calls={} accepted={} debug_assertions={}", ncalls, naccepted, cfg!(debug_assertions));
    0
}

pub fn run(rep: &mut Report) {
    quiet_panics();
    rep.rule = "counting estimators (jaccard::compute_probminhash_jaccard, jaccard::get_jaccard_index_estimate, SuperMinHash::get_jaccard_index_estimate, superminhasher::{compute_superminhash_jaccard,get_jaccard_index_estimate}, SuperMinHash2::get_jaccard_index_estimate, superminhasher2::{compute_superminhash_jaccard,get_jaccard_index_estimate}): pairs of sketches of element types u64/String/u16/u32/f64/f32 and real sketcher states, lengths 1..5000, planted agreement patterns (none, all, first only, last only, all but first/last, random), half of the vectors containing values with a special role in the crate (0, MAX, 1, the sketch length); oracle = agreements/length (bit-exact f64, nearest f32 for f32 results), both argument orders, identical => 1, unequal lengths => Err or panic (never a number). MLE: get_mle in child processes on sketch pairs from same-parameter sketchers (19 shapes: nested, very unequal, identical, five disjoint shapes (no equal register at moderate m), one common item, ordinary, empty; b in {1.001,1.1,1.5,2}; m in {16,64,128,256,512,4096}; both argument orders): must return Some(j) with j finite in [0,1]; a panic, None, NaN or out-of-range value is a violation. Distinct = cases; non-trivial: length >= 2 or any MLE case".into();
    // ---- counting estimators
    if rep.want("counting") {
        let n: u64 = rep.tier.pick(12_000, 400_000);
        let seed = subseed(rep.seed, "C14/counting", &[]);
        let res: Vec<(u64, Result<Out, String>)> = (0..n).into_par_iter().map(|i| (i, catch(move || counting_case(i, seed)))).collect();
        for (i, r) in res {
            match r {
                Ok(o) => {
                    rep.evaluations += o.ncalls;
                    rep.count("counting.estimator_calls", o.ncalls);
                    rep.distinct.insert(mix(&[i, fnv64(o.case.to_string().as_bytes())]));
                    if i < 3 {
                        rep.sample(o.case.clone());
                    }
                    for (k, w) in o.fails {
                        rep.violation(&k, "counting", w, o.case.clone());
                    }
                }
                Err(p) => rep.violation("C14/panic", "counting", format!("harness-level panic: {}", p), json!({"case": i})),
            }
        }
    }
    // ---- MLE in child processes
    if rep.want("mle") {
        let nchild = rep.tier.pick(16, 32);
        let per = rep.tier.pick(30, 200);
        let exe = std::env::current_exe().unwrap();
        let seed = subseed(rep.seed, "C14/mle", &[]);
        let children: Vec<_> = (0..nchild)
            .map(|c| {
                std::process::Command::new(&exe)
                    .args(["child", "c14mle", &mix(&[seed, c as u64]).to_string(), &per.to_string()])
                    .env("RUST_BACKTRACE", "0")
                    .env_remove("RUST_LOG")
                    .stdout(std::process::Stdio::piped())
                    .stderr(std::process::Stdio::null())
                    .spawn()
            })
            .collect();
        let mut nres = 0u64;
        let mut noutcome: std::collections::BTreeMap<String, u64> = Default::default();
        for (ci, c) in children.into_iter().enumerate() {
            match c.and_then(|c| c.wait_with_output()) {
                Ok(o) => {
                    let text = String::from_utf8_lossy(&o.stdout);
                    let mut done = false;
                    for line in text.lines() {
                        if let Some(rest) = line.strip_prefix("MLERES ") {
                            nres += 1;
                            let (desc, outcome) = rest.split_once(" :: ").unwrap_or((rest, "?"));
                            let shape = desc.split("shape=").nth(1).and_then(|s| s.split(' ').next()).unwrap_or("?").to_string();
                            rep.distinct.insert(fnv64(desc.as_bytes()));
                            if nres <= 2 {
                                rep.sample(json!({"mle_case": desc, "outcome": outcome}));
                            }
                            if let Some(v) = outcome.strip_prefix("SOME ") {
                                let x: f64 = v.trim().parse().unwrap_or(f64::NAN);
                                if !(x.is_finite() && (0. ..=1.).contains(&x)) {
                                    *noutcome.entry("out_of_range".into()).or_default() += 1;
                                    rep.violation(&format!("C14/mle-out-of-range/{}", shape), "mle", format!("get_mle returned {} for {}", v, desc), json!({"case": desc}));
                                } else {
                                    *noutcome.entry("some_in_range".into()).or_default() += 1;
                                }
                            } else if outcome.starts_with("NONE") {
                                *noutcome.entry("none".into()).or_default() += 1;
                                rep.violation(&format!("C14/mle-none/{}", shape), "mle", format!("get_mle returned None for {}", desc), json!({"case": desc}));
                            } else {
                                *noutcome.entry("panic".into()).or_default() += 1;
                                rep.violation(&format!("C14/mle-abort/{}", shape), "mle", format!("get_mle aborted for {} : {}", desc, outcome), json!({"case": desc}));
                            }
                        } else if line.starts_with("MLEDONE") {
                            done = true;
                        }
                    }
                    if !done {
                        // the child died (abort, not an unwinding panic) before finishing its cases
                        rep.violation("C14/mle-process-abort", "mle", format!("MLE child process {} died before finishing (exit {:?})", ci, o.status.code()), json!({"child": ci}));
                    }
                }
                Err(e) => rep.inconclusive.push(format!("MLE child {} could not be run: {}", ci, e)),
            }
        }
        rep.evaluations += nres;
        rep.count("mle.calls", nres);
        rep.extra.insert("mle_outcomes".into(), json!(noutcome));
    }
}
