//! C19 — invertible integer hashes are bijections with the given inverses
use crate::common::*;
use probminhash::invhash::*;
use rand::RngCore;
use rayon::prelude::*;
use serde_json::json;

fn structured64() -> Vec<u64> {
    let mut v: Vec<u64> = vec![0, !0, 1, 2, 3, u64::MAX - 1, 0x8000_0000_0000_0000, 0x7fff_ffff_ffff_ffff];
    // 1, 2 and 3 bit patterns
    for i in 0..64 {
        v.push(1u64 << i);
        v.push(!(1u64 << i));
        for j in (i + 1)..64 {
            v.push((1u64 << i) | (1u64 << j));
            v.push(!((1u64 << i) | (1u64 << j)));
            for k in (j + 1)..64 {
                v.push((1u64 << i) | (1u64 << j) | (1u64 << k));
            }
        }
    }
    // 2^k +- {0,1,2}, low / high masks
    for k in 0..64 {
        let p = 1u64 << k;
        for d in 0..3u64 {
            v.push(p.wrapping_add(d));
            v.push(p.wrapping_sub(d));
        }
        v.push(p.wrapping_sub(1)); // low mask
        v.push(!(p.wrapping_sub(1))); // high mask
    }
    // byte replicated words
    for b in 0..=255u64 {
        v.push(b * 0x0101_0101_0101_0101);
    }
    // carry chains across the shifted adds (shift amounts of the forward hash and its steps)
    for s in [21u32, 24, 3, 8, 14, 2, 4, 28, 31] {
        let lowmask = (1u64 << s) - 1;
        for t in [0u64, 1, 2] {
            v.push(lowmask.wrapping_add(t));
            v.push((lowmask << s).wrapping_add(t));
            v.push((!0u64 >> s).wrapping_add(t));
            v.push((!0u64 << s).wrapping_sub(t));
            v.push(lowmask | (lowmask << (64 - s)));
        }
    }
    v
}

// ---- reference model of the 64-bit mix (Thomas Wang), used only to GENERATE adversarial inputs: values that are structured
// at an intermediate stage of the pipeline. The verdict never depends on it (the oracle is the round trip identity).
fn inv_odd(a: u64) -> u64 {
    let mut x = a; // Newton iteration for the inverse modulo 2^64
    for _ in 0..6 {
        x = x.wrapping_mul(2u64.wrapping_sub(a.wrapping_mul(x)));
    }
    x
}
fn unxorshift(mut k: u64, s: u32) -> u64 {
    let mut sh = s;
    while sh < 64 {
        k ^= k >> sh;
        sh *= 2;
    }
    k
}
fn ref_forward(stage: usize, k: u64) -> u64 {
    match stage {
        1 => (!k).wrapping_add(k << 21),
        2 => k ^ (k >> 24),
        3 => k.wrapping_mul(265),
        4 => k ^ (k >> 14),
        5 => k.wrapping_mul(21),
        6 => k ^ (k >> 28),
        _ => k.wrapping_add(k << 31),
    }
}
fn ref_backward(stage: usize, k: u64) -> u64 {
    match stage {
        1 => k.wrapping_add(1).wrapping_mul(inv_odd((1u64 << 21) - 1)),
        2 => unxorshift(k, 24),
        3 => k.wrapping_mul(inv_odd(265)),
        4 => unxorshift(k, 14),
        5 => k.wrapping_mul(inv_odd(21)),
        6 => unxorshift(k, 28),
        _ => k.wrapping_mul(inv_odd((1u64 << 31) + 1)),
    }
}
/// v is the value between stage `after` and stage `after + 1` (after = 0: the input, 7: the output)
fn from_intermediate(after: usize, v: u64) -> (u64, u64) {
    let mut x = v;
    for st in (1..=after).rev() {
        x = ref_backward(st, x);
    }
    let mut y = v;
    for st in (after + 1)..=7 {
        y = ref_forward(st, y);
    }
    (x, y)
}

pub fn run(rep: &mut Report) {
    rep.rule = "32-bit pair: every x in 0..2^32, both compositions (exhaustive). 64-bit pair: all values below 2^22 (2^28 thorough) and sparse patterns placed at each of the 8 intermediate stages of a reference pipeline and pulled back / pushed forward to inputs and outputs; every value of every 16/20(/24)-bit window at every offset over random backgrounds; structured words (0, ~0, all 1/2/3-bit patterns and complements, 2^k±{0,1,2}, masks, byte-replicated words, carry chains at each shift amount) plus N random words, both compositions; a case is non-trivial when distinct (structured words deduplicated, random words counted as drawn: collisions among < 2^37 draws from 2^64 are negligible, 32-bit space enumerated once)".into();
    // ---- 32 bit, exhaustive
    if rep.want("h32") {
        let nblocks = 1u64 << 12;
        let bad: Vec<(u32, u32, u32)> = (0..nblocks)
            .into_par_iter()
            .flat_map_iter(|b| {
                let mut out = Vec::new();
                let lo = b << 20;
                for x in lo..lo + (1 << 20) {
                    let x = x as u32;
                    let a = int32_hash_inverse(int32_hash(x));
                    let c = int32_hash(int32_hash_inverse(x));
                    if (a != x || c != x) && out.len() < 4 {
                        out.push((x, a, c));
                    }
                }
                out
            })
            .collect();
        rep.evaluations += 1u64 << 32;
        rep.count("h32.values_checked_both_compositions", 1u64 << 32);
        // distinct: the space was enumerated once; every value is a distinct case
        rep.extra.insert("h32_exhaustive".into(), json!(true));
        rep.extra.insert("h32_distinct".into(), json!(1u64 << 32));
        for (x, a, c) in bad.iter().take(5) {
            rep.violation(
                "C19/h32",
                "h32",
                format!("int32: x={:#x} inverse(hash(x))={:#x} hash(inverse(x))={:#x}", x, a, c),
                json!({"x": x}),
            );
        }
        rep.sample(json!({"pair": "32", "x": 0xdeadbeefu32, "hash": int32_hash(0xdeadbeef), "inverse_of_hash": int32_hash_inverse(int32_hash(0xdeadbeef))}));
    }
    // ---- 64 bit structured
    if rep.want("h64s") {
        let mut st = structured64();
        st.sort_unstable();
        st.dedup();
        let mut nbad = 0;
        for &x in &st {
            let a = int64_hash_inverse(int64_hash(x));
            let c = int64_hash(int64_hash_inverse(x));
            rep.distinct.insert(x);
            if a != x || c != x {
                nbad += 1;
                if nbad <= 5 {
                    rep.violation("C19/h64", "h64s", format!("int64: x={:#x} inverse(hash(x))={:#x} hash(inverse(x))={:#x}", x, a, c), json!({"x": x}));
                }
            }
        }
        rep.evaluations += st.len() as u64;
        rep.count("h64.structured_values", st.len() as u64);
        rep.sample(json!({"pair": "64", "x": format!("{:#x}", st[st.len() / 2]), "hash": format!("{:#x}", int64_hash(st[st.len() / 2]))}));
    }
    // ---- 64 bit: every value of every w-bit window at every bit offset, over random backgrounds
    // (a defect conditioned on a contiguous field of the input of up to w bits is hit with certainty)
    if rep.want("h64w") {
        let seed = subseed(rep.seed, "C19/h64w", &[]);
        let plans: Vec<(u32, u64)> = rep.tier.pick(vec![(16, 8), (20, 2)], vec![(16, 64), (20, 16), (24, 2)]);
        let mut total = 0u64;
        for (w, nbg) in plans {
            let jobs: Vec<(u32, u64)> = (0..=(64 - w)).flat_map(|off| (0..nbg).map(move |b| (off, b))).collect();
            let bad: Vec<(u64, u64, u64)> = jobs
                .par_iter()
                .flat_map_iter(|&(off, b)| {
                    let mut rng = rng_from(mix(&[seed, w as u64, off as u64, b]));
                    let bg = rng.next_u64();
                    let mask = (((1u128 << w) - 1) as u64) << off;
                    let mut out = Vec::new();
                    for f in 0..(1u64 << w) {
                        let x = (bg & !mask) | (f << off);
                        let a = int64_hash_inverse(int64_hash(x));
                        let c = int64_hash(int64_hash_inverse(x));
                        if (a != x || c != x) && out.len() < 2 {
                            out.push((x, a, c));
                        }
                    }
                    out
                })
                .collect();
            let n = jobs.len() as u64 * (1u64 << w);
            total += n;
            rep.count(&format!("h64.window_{}bit_values", w), n);
            for (x, a, c) in bad.iter().take(3) {
                rep.violation("C19/h64", "h64w", format!("int64: x={:#x} inverse(hash(x))={:#x} hash(inverse(x))={:#x} (found by the {}-bit window enumeration)", x, a, c, w), json!({"x": x}));
            }
        }
        rep.evaluations += total;
        rep.extra.insert("h64_window_enumeration".into(), json!("every value of every contiguous w-bit field at every offset, over random backgrounds: exhaustive over (offset, field value) for the listed widths"));
    }
    // ---- 64 bit: inputs/outputs whose INTERMEDIATE value at one of the 8 pipeline stages is structured (all small values,
    // sparse bit patterns): conditions on an internal field are not reachable by random or boundary inputs
    if rep.want("h64i") {
        let small_bits: u32 = rep.tier.pick(22, 28);
        let mut st = structured64();
        st.sort_unstable();
        st.dedup();
        let mut total = 0u64;
        for after in 0..=7usize {
            let nblocks = 1u64 << (small_bits - 16);
            let bad: Vec<(u64, u64, u64, u64)> = (0..nblocks + 1)
                .into_par_iter()
                .flat_map_iter(|b| {
                    let vals: Box<dyn Iterator<Item = u64>> = if b < nblocks { Box::new((b << 16)..((b + 1) << 16)) } else { Box::new(st.clone().into_iter()) };
                    let mut out = Vec::new();
                    for v in vals {
                        for w in [v, !v, v << 20, v << 36] {
                            let (x, y) = from_intermediate(after, w);
                            let a = int64_hash_inverse(int64_hash(x));
                            let c = int64_hash(int64_hash_inverse(y));
                            if (a != x || c != y) && out.len() < 2 {
                                out.push((x, a, y, c));
                            }
                        }
                    }
                    out
                })
                .collect();
            let n = 4 * ((1u64 << small_bits) + st.len() as u64);
            total += n;
            for (x, a, y, c) in bad.iter().take(2) {
                rep.violation("C19/h64", "h64i", format!("int64 (value structured after stage {} of the reference pipeline): x={:#x} inverse(hash(x))={:#x}; y={:#x} hash(inverse(y))={:#x}", after, x, a, y, c), json!({"x": x, "y": y, "structured_after_stage": after}));
            }
        }
        rep.evaluations += total;
        rep.count("h64.intermediate_structured_values", total);
        // cross-check of the generator itself (not a verdict): the reference pipeline agrees with the crate on a sample
        let probe = 0x0123_4567_89ab_cdefu64;
        let (x, y) = from_intermediate(0, probe);
        rep.extra.insert("h64_reference_pipeline_matches_crate_on_probe".into(), json!(x == probe && y == int64_hash(probe)));
    }
    // ---- 64 bit random
    if rep.want("h64r") {
        let log_n = rep.tier.pick(30, 36);
        let nblocks = 1u64 << (log_n - 20);
        let seed = subseed(rep.seed, "C19/h64r", &[]);
        let bad: Vec<(u64, u64, u64)> = (0..nblocks)
            .into_par_iter()
            .flat_map_iter(|b| {
                let mut rng = rng_from(mix(&[seed, b]));
                let mut out = Vec::new();
                for _ in 0..(1 << 20) {
                    let x = rng.next_u64();
                    let a = int64_hash_inverse(int64_hash(x));
                    let c = int64_hash(int64_hash_inverse(x));
                    if (a != x || c != x) && out.len() < 4 {
                        out.push((x, a, c));
                    }
                }
                out
            })
            .collect();
        rep.evaluations += 1u64 << log_n;
        rep.count("h64.random_values", 1u64 << log_n);
        rep.extra.insert("h64_random_distinct_estimate".into(), json!(1u64 << log_n));
        rep.extra.insert("h64_coverage_of_domain".into(), json!(format!("2^{} of 2^64 : the 64-bit claim is sampled, not closed", log_n)));
        for (x, a, c) in bad.iter().take(5) {
            rep.violation("C19/h64", "h64r", format!("int64: x={:#x} inverse(hash(x))={:#x} hash(inverse(x))={:#x}", x, a, c), json!({"x": x}));
        }
        let mut rng = rng_from(mix(&[seed, 0]));
        let x = rng.next_u64();
        rep.sample(json!({"pair": "64", "x": format!("{:#x}", x), "hash": format!("{:#x}", int64_hash(x)), "inverse_of_hash": format!("{:#x}", int64_hash_inverse(int64_hash(x)))}));
    }
    rep.exhaustive = Some(false);
    rep.extra.insert("exhaustive_note".into(), json!("the 32-bit pair is enumerated completely (h32_exhaustive); the 64-bit pair is sampled, hence exhaustive=false for the property as a whole"));
    rep.assumptions.push("the harness is compiled with overflow checks on: an unintended arithmetic overflow inside the hash functions would panic".into());
}
