use crate::common::*;

pub fn run(rep: &mut Report) {
    let _ = rep;
    eprintln!("C13 not implemented yet");
}
