//! C13 — after reinit/reset a sketcher behaves exactly like a new one (differential monitor)
use crate::common::*;
use crate::gen::*;
use crate::sk::*;
use fnv::FnvHasher;
use probminhash::densminhash::{OptDensMinHash, RevOptDensMinHash};
use probminhash::probminhasher::probordminhash2::ProbOrdMinHash2;
use probminhash::probminhasher::ProbMinHash2;
use probminhash::setsketcher::{SetSketchParams, SetSketcher};
use rand::Rng as _;
use rayon::prelude::*;
use serde_json::{json, Value};

struct Out {
    nops: u64,
    fail: Option<(String, String)>,
    case: Value,
}

fn rand_stream(rng: &mut Rng, pool: &[u64], maxn: usize) -> Vec<u64> {
    let n = match rng.random_range(0..5) {
        0 => 1,
        1 => rng.random_range(1..5),
        _ => rng.random_range(1..maxn.max(2)),
    };
    (0..n).map(|_| if rng.random_range(0..3) == 0 { pool[rng.random_range(0..pool.len())] } else { fresh_ids(rng, 1, 0)[0] }).collect()
}

/// generic unweighted sketchers through the USk trait
fn usk_case(kind: UKind, m: usize, seed: u64) -> Out {
    let mut rng = rng_from(seed);
    let pool = if kind.is_nohash() { ids_with_specials(&mut rng, 50) } else { fresh_ids(&mut rng, 50, 0) };
    let mut used = make_usk(kind, m);
    let mut ops = Vec::new();
    let mut nops = 0;
    // several rounds: pre-history, reinit, input X, compare with a fresh sketcher
    for round in 0..rng.random_range(1..4) {
        let nhist = rng.random_range(0..5);
        let mut streamed = false;
        let mut last_item: Option<u64> = None;
        for _ in 0..nhist {
            let xs = rand_stream(&mut rng, &pool, 20 * m.min(100) + 5);
            last_item = if rng.random_range(0..3) == 0 { xs.get(2.min(xs.len() - 1)).cloned() } else { xs.last().cloned() };
            match rng.random_range(0..3) {
                0 => {
                    used.sketch_slice(&xs);
                    ops.push(json!(["sketch_slice", xs.len()]));
                }
                1 => {
                    for x in &xs {
                        used.sketch(*x);
                    }
                    ops.push(json!(["sketch_items", xs.len()]));
                }
                _ => {
                    for x in xs.iter().take(3) {
                        used.sketch(*x);
                    }
                    last_item = xs.get(2.min(xs.len() - 1)).cloned();
                    ops.push(json!(["sketch_items", xs.len().min(3)]));
                }
            }
            streamed = true;
            nops += 1;
            // finished or unfinished densification
            if kind.is_dens() && rng.random_range(0..2) == 0 {
                used.finish();
                ops.push(json!(["end_sketch"]));
            }
        }
        let _ = streamed;
        used.reinit();
        ops.push(json!(["reinit"]));
        let mut x = rand_stream(&mut rng, &pool, 20 * m.min(100) + 5);
        // the new input often starts with the last item seen before the reinit (overlapping windows)
        if let Some(last) = last_item {
            if rng.random_range(0..2) == 0 {
                x.insert(0, last);
            }
        }
        let mut fresh = make_usk(kind, m);
        if rng.random_range(0..2) == 0 {
            used.sketch_slice(&x);
            fresh.sketch_slice(&x);
        } else {
            for d in &x {
                used.sketch(*d);
                fresh.sketch(*d);
            }
            used.finish();
            fresh.finish();
        }
        nops += 1;
        ops.push(json!(["input_X", x.len()]));
        if used.bits() != fresh.bits() {
            let a = used.bits();
            let b = fresh.bits();
            let p = (0..a.len()).find(|&p| a[p] != b[p]).unwrap_or(0);
            return Out { nops, fail: Some(("C13/differs-from-fresh".into(), format!("{} m={} round {}: after reinit the sketch of {} items differs from a new sketcher's at entry {} of the bit image ({:#x} vs {:#x})", kind.name(), m, round, x.len(), p, a[p], b[p]))), case: json!({"kind": kind.name(), "m": m, "ops": ops}) };
        }
    }
    Out { nops, fail: None, case: json!({"kind": kind.name(), "m": m, "ops": ops}) }
}

/// SetSketcher with merges, clipping and secondary observables
fn setsketch_case<const U16: bool>(seed: u64) -> Out {
    type S16 = SetSketcher<u16, u64, FnvHasher>;
    type S32 = SetSketcher<u32, u64, FnvHasher>;
    let mut rng = rng_from(seed);
    let b = [1.0001, 1.001, 1.05, 2.0][rng.random_range(0..4)];
    let m = [1u64, 2, 16, 64, 300][rng.random_range(0..5)];
    let (a, q) = [(20., 65534u64), (5., 12), (20., 1_000_000), (30., 40)][rng.random_range(0..4)];
    let params = SetSketchParams::new(b, m, a, q);
    let pool = fresh_ids(&mut rng, 50, 0);
    let mut ops = Vec::new();
    let mut nops = 0;
    macro_rules! body {
        ($t:ty) => {{
            let mut used = <$t>::new(params, Default::default());
            for round in 0..rng.random_range(1..4) {
                for _ in 0..rng.random_range(0..5) {
                    if rng.random_range(0..3) == 0 {
                        let mut o = <$t>::new(params, Default::default());
                        o.sketch_slice(&rand_stream(&mut rng, &pool, 3000)).unwrap();
                        used.merge(&o).unwrap();
                        ops.push(json!(["merge"]));
                    } else {
                        let xs = rand_stream(&mut rng, &pool, 3000);
                        used.sketch_slice(&xs).unwrap();
                        ops.push(json!(["sketch_slice", xs.len()]));
                    }
                    nops += 1;
                }
                let ov_before = used.get_nb_overflow();
                used.reinit();
                ops.push(json!(["reinit", {"overflow_before": ov_before}]));
                let x = rand_stream(&mut rng, &pool, 3000);
                let mut fresh = <$t>::new(params, Default::default());
                used.sketch_slice(&x).unwrap();
                fresh.sketch_slice(&x).unwrap();
                nops += 1;
                let obs = |s: &$t| (s.get_signature().iter().map(|v| *v as u64).collect::<Vec<u64>>(), s.get_low_sketch(), s.get_nb_overflow(), s.get_cardinal_stats().0.to_bits());
                if obs(&used) != obs(&fresh) {
                    let (ru, lu, ou, _) = obs(&used);
                    let (rf, lf, of, _) = obs(&fresh);
                    return Out { nops, fail: Some(("C13/differs-from-fresh".into(), format!("SetSketcher b={} m={} a={} q={} round {}: after reinit registers equal: {}, low {} vs {}, overflow {} vs {}", b, m, a, q, round, ru == rf, lu, lf, ou, of))), case: json!({"kind": "SetSketcher", "b": b, "m": m, "a": a, "q": q, "ops": ops}) };
                }
                // a following merge and further streaming behave the same
                let mut o = <$t>::new(params, Default::default());
                o.sketch_slice(&rand_stream(&mut rng, &pool, 500)).unwrap();
                used.merge(&o).unwrap();
                fresh.merge(&o).unwrap();
                let y = rand_stream(&mut rng, &pool, 500);
                used.sketch_slice(&y).unwrap();
                fresh.sketch_slice(&y).unwrap();
                if obs(&used) != obs(&fresh) {
                    return Out { nops, fail: Some(("C13/differs-from-fresh".into(), format!("SetSketcher b={} m={} a={} q={} round {}: after reinit + merge + further streaming the observables differ from a new sketcher's", b, m, a, q, round))), case: json!({"kind": "SetSketcher", "b": b, "m": m, "a": a, "q": q, "ops": ops}) };
                }
            }
        }};
    }
    if U16 {
        body!(S16);
    } else {
        body!(S32);
    }
    Out { nops, fail: None, case: json!({"kind": "SetSketcher", "registers": if U16 { "u16" } else { "u32" }, "b": b, "m": m, "a": a, "q": q, "ops": ops}) }
}

/// densified sketchers: raw state after reinit + partial input
fn dens_raw_case(seed: u64) -> Out {
    let mut rng = rng_from(seed);
    let m = rng.random_range(1..200);
    let pool = fresh_ids(&mut rng, 30, 0);
    let opt = rng.random_range(0..2) == 0;
    let mut nops = 0;
    macro_rules! body {
        ($t:ident) => {{
            let mut used = $t::<f64, u64, FnvHasher>::new(m, Default::default());
            for _ in 0..rng.random_range(0..4) {
                let xs = rand_stream(&mut rng, &pool, 3 * m);
                for x in &xs {
                    used.sketch(x);
                }
                if rng.random_range(0..2) == 0 {
                    used.end_sketch();
                }
                nops += 1;
            }
            used.reinit();
            let mut fresh = $t::<f64, u64, FnvHasher>::new(m, Default::default());
            let x = rand_stream(&mut rng, &pool, m);
            for d in &x {
                used.sketch(d);
                fresh.sketch(d);
            }
            nops += 1;
            let (a, b) = (used.verif_raw_state(), fresh.verif_raw_state());
            let same = a.0.iter().map(|v| v.to_bits()).eq(b.0.iter().map(|v| v.to_bits())) && a.1 == b.1 && a.2 == b.2 && a.3 == b.3;
            if !same {
                return Out { nops, fail: Some(("C13/differs-from-fresh".into(), format!("{} m={}: raw state (values, hashes, populated flags, nb_empty {} vs {}) after reinit + partial stream differs from a new sketcher's", stringify!($t), m, a.3, b.3))), case: json!({"kind": stringify!($t), "m": m}) };
            }
        }};
    }
    if opt {
        body!(OptDensMinHash);
    } else {
        body!(RevOptDensMinHash);
    }
    Out { nops, fail: None, case: json!({"kind": if opt { "OptDensMinHash raw" } else { "RevOptDensMinHash raw" }, "m": m}) }
}

fn pmh2_case(seed: u64) -> Out {
    let mut rng = rng_from(seed);
    let m = [1usize, 2, 3, 16, 100, 500][rng.random_range(0..6)];
    let mut used = ProbMinHash2::<u64, FnvHasher>::new(m, 0);
    let mut nops = 0;
    let gen_w = |rng: &mut Rng| -> Vec<(u64, f64)> {
        let n = rng.random_range(1..80);
        fresh_ids(rng, n, 0).into_iter().map(|d| (d, 10f64.powf(rng.random_range(-3.0..3.0)))).collect()
    };
    let mut last_pair: Option<(u64, f64)> = None;
    for round in 0..3 {
        for _ in 0..rng.random_range(0..3) {
            for (d, w) in gen_w(&mut rng) {
                used.hash_item(d, w);
                last_pair = Some((d, w));
            }
            nops += 1;
        }
        used.reset();
        let mut x = gen_w(&mut rng);
        if let Some(l) = last_pair {
            if rng.random_range(0..2) == 0 {
                x.insert(0, l);
            }
        }
        let mut fresh = ProbMinHash2::<u64, FnvHasher>::new(m, 0);
        for (d, w) in &x {
            used.hash_item(*d, *w);
            fresh.hash_item(*d, *w);
            last_pair = Some((*d, *w));
        }
        nops += 1;
        if used.get_signature() != fresh.get_signature() || used.verif_registers().iter().map(|v| v.to_bits()).ne(fresh.verif_registers().iter().map(|v| v.to_bits())) {
            return Out { nops, fail: Some(("C13/differs-from-fresh".into(), format!("ProbMinHash2 m={} round {}: signature or registers after reset differ from a new sketcher's", m, round))), case: json!({"kind": "ProbMinHash2", "m": m}) };
        }
    }
    Out { nops, fail: None, case: json!({"kind": "ProbMinHash2", "m": m}) }
}

fn ord_case(seed: u64) -> Out {
    let mut rng = rng_from(seed);
    let m = [1u32, 4, 32, 200][rng.random_range(0..4)];
    let l = rng.random_range(1..6);
    let alphabet = fresh_ids(&mut rng, 12, 0);
    let gen_seq = |rng: &mut Rng| -> Vec<u64> {
        let n = rng.random_range(l..l + 50);
        (0..n).map(|_| alphabet[rng.random_range(0..alphabet.len())]).collect()
    };
    let x = gen_seq(&mut rng);
    let mut sk = ProbOrdMinHash2::<FnvHasher>::new(m, l);
    let first = sk.hash_set(&x);
    let idx_first = sk.verif_selected_indices();
    let mut nops = 1;
    for _ in 0..rng.random_range(1..6) {
        let y = gen_seq(&mut rng);
        sk.hash_set(&y);
        nops += 1;
    }
    let again = sk.hash_set(&x);
    let idx_again = sk.verif_selected_indices();
    nops += 1;
    let fresh = ProbOrdMinHash2::<FnvHasher>::new(m, l).hash_set(&x);
    let fail = if again != first || idx_again != idx_first {
        Some(("C13/differs-from-fresh".to_string(), format!("ProbOrdMinHash2 m={} l={}: hash_set of the same sequence after other calls differs from the first result on that instance", m, l)))
    } else if fresh != first {
        Some(("C13/differs-from-fresh".to_string(), format!("ProbOrdMinHash2 m={} l={}: a reused instance and a new instance disagree", m, l)))
    } else {
        None
    };
    Out { nops, fail, case: json!({"kind": "ProbOrdMinHash2", "m": m, "l": l, "len": x.len()}) }
}

/// long pre-histories on one instance: `flavour` 0 = very many calls on few distinct items before the reinit, 1 = very many
/// (tiny stream, reinit) cycles; counters of the implementation pass 2^16 and 2^17. Checked against a new sketcher after each phase.
fn long_case(fam: usize, flavour: usize, seed: u64, n: usize) -> Out {
    let mut rng = rng_from(seed);
    let kinds = crate::c04::kinds();
    let m = [3usize, 4, 8, 16, 33][rng.random_range(0..5)];
    let mut nops = 0u64;
    if fam < kinds.len() {
        let kind = kinds[fam];
        let pool = fresh_ids(&mut rng, 12, 0);
        let mut used = make_usk(kind, m);
        for phase in 0..3 {
            if flavour == 0 {
                for _ in 0..n {
                    used.sketch(pool[rng.random_range(0..pool.len())]);
                }
                nops += n as u64;
                used.finish();
                used.reinit();
            } else {
                for c in 0..n {
                    used.sketch(pool[rng.random_range(0..pool.len())]);
                    if c % 3 == 0 {
                        used.sketch(pool[rng.random_range(0..pool.len())]);
                    }
                    if kind.is_dens() && c % 16 == 0 {
                        used.finish();
                    }
                    used.reinit();
                }
                nops += n as u64;
            }
            let x = rand_stream(&mut rng, &pool, 3 * m + 5);
            let mut fresh = make_usk(kind, m);
            used.sketch_slice(&x);
            fresh.sketch_slice(&x);
            let (a, b) = (used.bits(), fresh.bits());
            if a != b {
                let p = (0..a.len()).find(|&p| a[p] != b[p]).unwrap_or(0);
                return Out { nops, fail: Some(("C13/differs-from-fresh".into(), format!("{} m={}: after a long history ({} x {} {}) and reinit, the sketch of {} items differs from a new sketcher's at entry {} of the bit image ({:#x} vs {:#x})", kind.name(), m, phase + 1, n, if flavour == 0 { "calls" } else { "(stream, reinit) cycles" }, x.len(), p, a[p], b[p]))), case: json!({"kind": kind.name(), "m": m, "long_history": [flavour, n]}) };
            }
            used.reinit();
        }
        return Out { nops, fail: None, case: json!({"kind": kind.name(), "m": m, "long_history": [flavour, n]}) };
    }
    if fam == kinds.len() {
        let mut used = ProbMinHash2::<u64, FnvHasher>::new(m, 0);
        let pool: Vec<(u64, f64)> = fresh_ids(&mut rng, 12, 0).into_iter().map(|d| (d, 10f64.powf(rng.random_range(-2.0..2.0)))).collect();
        for phase in 0..3 {
            for c in 0..n {
                let (d, w) = pool[rng.random_range(0..pool.len())];
                used.hash_item(d, w);
                if flavour == 1 && c % 2 == 0 {
                    used.reset();
                }
            }
            nops += n as u64;
            used.reset();
            let mut fresh = ProbMinHash2::<u64, FnvHasher>::new(m, 0);
            for _ in 0..rng.random_range(1..3 * m) {
                let (d, w) = pool[rng.random_range(0..pool.len())];
                used.hash_item(d, w);
                fresh.hash_item(d, w);
            }
            if used.get_signature() != fresh.get_signature() || used.verif_registers().iter().map(|v| v.to_bits()).ne(fresh.verif_registers().iter().map(|v| v.to_bits())) {
                return Out { nops, fail: Some(("C13/differs-from-fresh".into(), format!("ProbMinHash2 m={}: after a long history ({} x {} calls, flavour {}) and reset, signature or registers differ from a new sketcher's", m, phase + 1, n, flavour))), case: json!({"kind": "ProbMinHash2", "m": m, "long_history": [flavour, n]}) };
            }
        }
        return Out { nops, fail: None, case: json!({"kind": "ProbMinHash2", "m": m, "long_history": [flavour, n]}) };
    }
    // ProbOrdMinHash2: very many hash_set calls on one instance
    let l = 1 + flavour;
    let alphabet = fresh_ids(&mut rng, 5, 0);
    let mut sk = ProbOrdMinHash2::<FnvHasher>::new(m as u32, l);
    for phase in 0..3 {
        for _ in 0..n {
            let len = rng.random_range(l..l + 4);
            let y: Vec<u64> = (0..len).map(|_| alphabet[rng.random_range(0..alphabet.len())]).collect();
            sk.hash_set(&y);
        }
        nops += n as u64;
        let len = rng.random_range(l..l + 30);
        let x: Vec<u64> = (0..len).map(|_| alphabet[rng.random_range(0..alphabet.len())]).collect();
        let got = sk.hash_set(&x);
        let fresh = ProbOrdMinHash2::<FnvHasher>::new(m as u32, l).hash_set(&x);
        if got != fresh {
            return Out { nops, fail: Some(("C13/differs-from-fresh".into(), format!("ProbOrdMinHash2 m={} l={}: after {} x {} hash_set calls on one instance the result for a sequence differs from a new instance's", m, l, phase + 1, n))), case: json!({"kind": "ProbOrdMinHash2", "m": m, "l": l, "long_history": [flavour, n]}) };
        }
    }
    Out { nops, fail: None, case: json!({"kind": "ProbOrdMinHash2", "m": m, "l": l, "long_history": [flavour, n]}) }
}

pub fn run(rep: &mut Report) {
    quiet_panics();
    rep.rule = "per case: random pre-history (partial streams via slice / item calls, finished or unfinished densification, merges, registers clipped with u16 and small q, several hash_set calls), then reinit/reset, then input X on the used sketcher and on a freshly constructed one: bit-identical sketches and secondary observables (low sketch, overflow count, cardinality, result of a following merge + further streaming, raw densification state, ProbMinHash2 registers, selected indices). Long pre-histories: per family and flavour (7e4 / 3e5 calls on few distinct items before the reinit; 7e4 / 3e5 (tiny stream, reinit) cycles), three phases each compared with a new sketcher. Families: SuperMinHash f32/f64/NoHash, SuperMinHash2 u64/u32, SetSketcher u16/u32, Opt/RevOpt densification f32/f64, ProbMinHash2, ProbOrdMinHash2. Distinct = (family, seed); non-trivial when the pre-history is non-empty or repeated rounds ran".into();
    let n: u64 = rep.tier.pick(40_000, 1_000_000);
    let seed = subseed(rep.seed, "C13", &[]);
    let kinds = crate::c04::kinds();
    let only = rep.only_cell.clone();
    let res: Vec<(u64, Result<Out, String>)> = (0..n)
        .into_par_iter()
        .filter(|i| only.as_ref().map(|c| c == &format!("case{}", i) || c == "cases").unwrap_or(true))
        .map(|i| {
            let s = mix(&[seed, i]);
            (
                i,
                catch(std::panic::AssertUnwindSafe(|| {
                    let fam = i % 27;
                    if fam >= 24 {
                        let kind = kinds[15 + (fam - 24) as usize];
                        let mut rng = rng_from(mix(&[s, 1]));
                        let m = rng.random_range(1..200);
                        usk_case(kind, m, s)
                    } else if fam < 15 {
                        let kind = kinds[fam as usize];
                        let mut rng = rng_from(mix(&[s, 1]));
                        let m = match rng.random_range(0..5) {
                            0 => 1,
                            1 => 2,
                            2 => rng.random_range(3..20),
                            _ => rng.random_range(20..400),
                        };
                        usk_case(kind, m, s)
                    } else if fam < 18 {
                        setsketch_case::<true>(s)
                    } else if fam < 20 {
                        setsketch_case::<false>(s)
                    } else if fam < 22 {
                        dens_raw_case(s)
                    } else if fam == 22 {
                        pmh2_case(s)
                    } else {
                        ord_case(s)
                    }
                })),
            )
        })
        .collect();
    for (i, r) in res {
        let cell = format!("case{}", i);
        match r {
            Ok(o) => {
                rep.evaluations += o.nops;
                rep.count("cases", 1);
                if o.nops >= 2 {
                    rep.distinct.insert(mix(&[i, 13]));
                }
                if i % 27 == 0 && i < 81 || i == 15 || i == 23 {
                    rep.sample(o.case.clone());
                }
                if let Some((k, w)) = o.fail {
                    rep.violation(&k, &cell, w, o.case);
                }
            }
            Err(p) => rep.violation("C13/panic", &cell, format!("panic: {}", p), json!({"case": i})),
        }
    }
    // long pre-histories
    let nlong = rep.tier.pick(70_000usize, 300_000);
    let nf = kinds.len() + 2;
    let res: Vec<(usize, Result<Out, String>)> = (0..2 * nf)
        .into_par_iter()
        .filter(|i| only.as_ref().map(|c| c == &format!("long{}", i) || c == "longs").unwrap_or(true))
        .map(|i| (i, catch(std::panic::AssertUnwindSafe(|| long_case(i % nf, i / nf, mix(&[seed, i as u64, 0x10a6]), nlong)))))
        .collect();
    for (i, r) in res {
        let cell = format!("long{}", i);
        match r {
            Ok(o) => {
                rep.evaluations += o.nops;
                rep.count("long_histories", 1);
                rep.count("long_history_operations", o.nops);
                rep.distinct.insert(mix(&[i as u64, 0x10a6]));
                if let Some((k, w)) = o.fail {
                    rep.violation(&k, &cell, w, o.case);
                }
            }
            Err(p) => rep.violation("C13/panic", &cell, format!("panic: {}", p), json!({"long_case": i})),
        }
    }
    collect_ticks(rep);
}
