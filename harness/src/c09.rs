//! C09 — densification only copies populated bins, is idempotent, and terminates (history monitor with hooks)
use crate::common::*;
use crate::gen::*;
use fnv::FnvHasher;
use probminhash::superminhasher::NoHashHasher;
use probminhash::densminhash::{OptDensMinHash, RevOptDensMinHash};
use rand::Rng as _;
use rayon::prelude::*;
use serde_json::{json, Value};
use std::cell::Cell;
use std::collections::{HashMap, HashSet};
use std::hash::{BuildHasher, BuildHasherDefault};

type Raw = (Vec<u64>, Vec<u64>, Vec<bool>, i64); // float bits, hashes, populated flags, nb_empty

trait Dens {
    fn sketch(&mut self, d: u64);
    fn sketch_slice(&mut self, ds: &[u64]) -> Result<(), String>;
    fn end_sketch(&mut self);
    fn reinit(&mut self);
    fn raw(&self) -> Raw;
    fn views(&self) -> (Vec<u64>, Vec<u64>, Vec<u32>);
}

macro_rules! impl_dens {
    ($t:ident, $f:ty) => {
        impl_dens!($t, $f, FnvHasher);
    };
    ($t:ident, $f:ty, $h:ty) => {
        impl Dens for $t<$f, u64, $h> {
            fn sketch(&mut self, d: u64) {
                $t::sketch(self, &d)
            }
            fn sketch_slice(&mut self, ds: &[u64]) -> Result<(), String> {
                $t::sketch_slice(self, ds).map_err(|e| e.to_string())
            }
            fn end_sketch(&mut self) {
                $t::end_sketch(self)
            }
            fn reinit(&mut self) {
                $t::reinit(self)
            }
            fn raw(&self) -> Raw {
                let (h, v, i, n) = self.verif_raw_state();
                (h.iter().map(|x| (*x as f64).to_bits()).collect(), v, i, n)
            }
            fn views(&self) -> (Vec<u64>, Vec<u64>, Vec<u32>) {
                (self.get_hsketch().iter().map(|x| (*x as f64).to_bits()).collect(), self.get_hsketch_u64(), self.get_hsketch_u32())
            }
        }
    };
}
impl_dens!(OptDensMinHash, f32);
impl_dens!(OptDensMinHash, f64);
impl_dens!(RevOptDensMinHash, f32);
impl_dens!(RevOptDensMinHash, f64);
impl_dens!(OptDensMinHash, f64, NoHashHasher);
impl_dens!(RevOptDensMinHash, f64, NoHashHasher);

fn make(kind: usize, m: usize) -> Box<dyn Dens> {
    match kind {
        0 => Box::new(OptDensMinHash::<f32, u64, FnvHasher>::new(m, Default::default())),
        1 => Box::new(OptDensMinHash::<f64, u64, FnvHasher>::new(m, Default::default())),
        2 => Box::new(RevOptDensMinHash::<f32, u64, FnvHasher>::new(m, Default::default())),
        3 => Box::new(RevOptDensMinHash::<f64, u64, FnvHasher>::new(m, Default::default())),
        4 => Box::new(OptDensMinHash::<f64, u64, NoHashHasher>::new(m, Default::default())),
        _ => Box::new(RevOptDensMinHash::<f64, u64, NoHashHasher>::new(m, Default::default())),
    }
}
const KNAMES: [&str; 6] = ["OptDensMinHash<f32>", "OptDensMinHash<f64>", "RevOptDensMinHash<f32>", "RevOptDensMinHash<f64>", "OptDensMinHash<f64,NoHashHasher>", "RevOptDensMinHash<f64,NoHashHasher>"];
const NKINDS: u64 = 6;

// ---- logical-step termination monitor
thread_local! {
    static FUTILE_STEPS: Cell<u64> = const { Cell::new(0) };
    static TOTAL_STEPS: Cell<u64> = const { Cell::new(0) };
    static LAST_POPULATED: Cell<usize> = const { Cell::new(usize::MAX) };
    static NO_PROGRESS: Cell<u64> = const { Cell::new(0) };
    /// true while a RevOptDensMinHash is driven on this thread (its hook ticks once per pass, not per search step)
    static IS_REV: Cell<bool> = const { Cell::new(false) };
}
const SPIN_MSG: &str = "verif-monitor: densification spun with zero populated bins (nothing can ever be copied)";
const STUCK_MSG: &str = "verif-monitor: densification made no progress";

/// Progress hook. With zero populated bins no step can ever succeed (logical futility). With populated bins a search step
/// (OptDens) succeeds with probability >= populated/m and a pass (RevOptDens) fills a bin with probability >= 1/2, the
/// sequences being keyed differently at every step/pass: 400 + 40 m consecutive search steps (probability < e^-40) or 100
/// consecutive passes (probability < 2^-100) without a newly filled bin are reported as non-termination.
fn densify_cb(populated: usize, m: usize) {
    TOTAL_STEPS.with(|c| c.set(c.get() + 1));
    if populated == 0 {
        let n = FUTILE_STEPS.with(|c| {
            c.set(c.get() + 1);
            c.get()
        });
        if n > 64 * m as u64 + 1000 {
            panic!("{}", SPIN_MSG);
        }
        return;
    }
    let last = LAST_POPULATED.with(|c| c.replace(populated));
    if last == populated {
        let n = NO_PROGRESS.with(|c| {
            c.set(c.get() + 1);
            c.get()
        });
        let limit = if IS_REV.with(|c| c.get()) { 100 } else { 400 + 40 * m as u64 };
        if n > limit {
            panic!("{} in {} consecutive search steps / passes ({} of {} bins populated)", STUCK_MSG, n, populated, m);
        }
    } else {
        NO_PROGRESS.with(|c| c.set(0));
    }
}

/// runs a finishing call under the termination monitor. Ok(()) returned normally, Err(msg) it reported failure by panicking.
/// A panic carrying SPIN_MSG means the loop was provably futile (hang).
fn guarded<F: FnOnce() -> Result<(), String>>(f: F) -> Result<Result<(), String>, String> {
    FUTILE_STEPS.with(|c| c.set(0));
    NO_PROGRESS.with(|c| c.set(0));
    LAST_POPULATED.with(|c| c.set(usize::MAX));
    catch(std::panic::AssertUnwindSafe(f))
}

fn check_finish(pre: &Raw, post: &Raw) -> Result<(), (String, String)> {
    let m = pre.0.len();
    if post.3 != 0 || post.2.iter().any(|x| !x) {
        return Err(("C09/not-finished".into(), format!("after finishing, {} bins are still marked empty (nb_empty={})", post.2.iter().filter(|x| !**x).count(), post.3)));
    }
    let populated: HashSet<(u64, u64)> = (0..m).filter(|&k| pre.2[k]).map(|k| (pre.0[k], pre.1[k])).collect();
    for k in 0..m {
        if pre.2[k] {
            if (post.0[k], post.1[k]) != (pre.0[k], pre.1[k]) {
                return Err(("C09/populated-bin-overwritten".into(), format!("bin {} had received an item (value bits {:#x}, hash {:#x}) but holds ({:#x}, {:#x}) after finishing", k, pre.0[k], pre.1[k], post.0[k], post.1[k])));
            }
        } else if !populated.contains(&(post.0[k], post.1[k])) {
            return Err(("C09/copy-not-from-populated-bin".into(), format!("empty bin {} was filled with (value bits {:#x}, hash {:#x}) which is not the pair of any bin populated before finishing", k, post.0[k], post.1[k])));
        }
    }
    Ok(())
}

fn nb_empty_consistent(r: &Raw) -> bool {
    r.3 == r.2.iter().filter(|x| !**x).count() as i64
}

struct HistOut {
    nops: u64,
    nfinish: u64,
    nempty_finish: u64,
    fail: Option<(String, String)>,
    ops: Vec<Value>,
    triples: Vec<(u64, u64, u32)>,
    steps: u64,
}

fn history(kind: usize, m: usize, seed: u64, len: usize) -> HistOut {
    let mut rng = rng_from(seed);
    let mut out = HistOut { nops: 0, nfinish: 0, nempty_finish: 0, fail: None, ops: vec![], triples: vec![], steps: 0 };
    probminhash::verif::set_densify_callback(Some(densify_cb));
    TOTAL_STEPS.with(|c| c.set(0));
    IS_REV.with(|c| c.set(matches!(kind, 2 | 3 | 5)));
    let nohash = kind >= 4;
    let hash_of = |d: u64| -> u64 {
        if nohash {
            BuildHasherDefault::<NoHashHasher>::default().hash_one(d)
        } else {
            BuildHasherDefault::<FnvHasher>::default().hash_one(d)
        }
    };
    let mut real = make(kind, m);
    let mut twin = make(kind, m);
    let mut streamed: HashSet<u64> = HashSet::new(); // hashes of items streamed since the last reinit
    let npool = rng.random_range(1..60);
    // with NoHashHasher the item value is the hash: stream adversarial hashes (u64::MAX is the initial value of the hash array)
    let pool = if nohash { ids_with_specials(&mut rng, npool) } else { fresh_ids(&mut rng, npool, 0) };
    macro_rules! fail {
        ($k:expr, $w:expr) => {{
            out.fail = Some(($k.to_string(), $w));
            out.steps = TOTAL_STEPS.with(|c| c.get());
            probminhash::verif::set_densify_callback(None);
            return out;
        }};
    }
    for step in 0..len {
        let c = rng.random_range(0..100);
        out.nops += 1;
        if c < 45 {
            // item-wise sketch
            let d = if rng.random_range(0..3) == 0 { pool[rng.random_range(0..pool.len())] } else { fresh_ids(&mut rng, 1, 0)[0] };
            real.sketch(d);
            twin.sketch(d);
            streamed.insert(hash_of(d));
            if out.ops.len() < 40 {
                out.ops.push(json!(["sketch", d]));
            }
        } else if c < 70 {
            // slice (possibly empty) on the real sketcher; item-wise + end_sketch on the twin
            let n = match rng.random_range(0..6) {
                0 => 0,
                1 => 1,
                2 => rng.random_range(1..4),
                3 => rng.random_range(1..(m / 4).max(2)),
                4 => rng.random_range(1..(2 * m).max(2)),
                _ => rng.random_range(1..(20 * m).clamp(2, 5000)),
            };
            let ds: Vec<u64> = (0..n).map(|_| if rng.random_range(0..4) == 0 { pool[rng.random_range(0..pool.len())] } else { fresh_ids(&mut rng, 1, 0)[0] }).collect();
            if out.ops.len() < 40 {
                out.ops.push(json!(["sketch_slice", n]));
            }
            for d in &ds {
                twin.sketch(*d);
                streamed.insert(hash_of(*d));
            }
            let pre = twin.raw();
            let nothing = pre.2.iter().all(|x| !x);
            out.nfinish += 1;
            let rt = guarded(|| {
                twin.end_sketch();
                Ok(())
            });
            let rr = guarded(|| real.sketch_slice(&ds));
            if nothing {
                out.nempty_finish += 1;
                for (who, r) in [("end_sketch", &rt), ("sketch_slice", &rr)] {
                    match r {
                        Err(msg) if msg.contains("verif-monitor") => fail!("C09/empty-stream-hang", format!("step {}: {} on a sketcher that received nothing never terminates: {}", step, who, msg)),
                        Ok(Ok(())) => fail!("C09/empty-stream-not-reported", format!("step {}: {} on a sketcher that received nothing returned normally instead of reporting failure", step, who)),
                        _ => {} // Err(panic message) or Ok(Err(..)) : failure reported
                    }
                }
                // start again from a clean state
                real.reinit();
                twin.reinit();
                streamed.clear();
                continue;
            }
            match (&rt, &rr) {
                (Ok(Ok(())), Ok(Ok(()))) => {}
                (Err(msg), _) | (_, Err(msg)) if msg.contains("verif-monitor") => fail!("C09/no-termination", format!("step {}: finishing a non-empty sketch does not terminate: {}", step, msg)),
                _ => fail!("C09/finish-failed", format!("step {}: finishing a non-empty sketch failed: end_sketch -> {:?}, sketch_slice -> {:?}", step, rt, rr)),
            }
            let post = twin.raw();
            if let Err((k, w)) = check_finish(&pre, &post) {
                fail!(k, format!("step {}: {}", step, w));
            }
            let rraw = real.raw();
            if rraw != post {
                fail!("C09/slice-differs-from-itemwise", format!("step {}: sketch_slice of {} items differs from item-wise sketch + end_sketch", step, n));
            }
        } else if c < 90 {
            // end_sketch on both, then once more on the twin (idempotence)
            if out.ops.len() < 40 {
                out.ops.push(json!(["end_sketch"]));
            }
            let pre = real.raw();
            let nothing = pre.2.iter().all(|x| !x);
            out.nfinish += 1;
            let rr = guarded(|| {
                real.end_sketch();
                Ok(())
            });
            let rt = guarded(|| {
                twin.end_sketch();
                Ok(())
            });
            if nothing {
                out.nempty_finish += 1;
                match &rr {
                    Err(msg) if msg.contains("verif-monitor") => fail!("C09/empty-stream-hang", format!("step {}: end_sketch on a sketcher that received nothing never terminates: {}", step, msg)),
                    Ok(Ok(())) => fail!("C09/empty-stream-not-reported", format!("step {}: end_sketch on a sketcher that received nothing returned normally instead of reporting failure", step)),
                    _ => {}
                }
                real.reinit();
                twin.reinit();
                streamed.clear();
                continue;
            }
            if let (Err(msg), _) | (_, Err(msg)) = (&rr, &rt) {
                if msg.contains("verif-monitor") {
                    fail!("C09/no-termination", format!("step {}: end_sketch on a non-empty sketch does not terminate: {}", step, msg));
                }
            }
            if !matches!((&rr, &rt), (Ok(Ok(())), Ok(Ok(())))) {
                fail!("C09/finish-failed", format!("step {}: end_sketch on a non-empty sketch failed: {:?}", step, rr));
            }
            let post = real.raw();
            if let Err((k, w)) = check_finish(&pre, &post) {
                fail!(k, format!("step {}: {}", step, w));
            }
            let _ = guarded(|| {
                twin.end_sketch();
                Ok(())
            });
            if twin.raw() != post {
                fail!("C09/end-sketch-not-idempotent", format!("step {}: calling end_sketch twice differs from calling it once", step));
            }
        } else {
            real.reinit();
            twin.reinit();
            streamed.clear();
            if out.ops.len() < 40 {
                out.ops.push(json!(["reinit"]));
            }
            let r = real.raw();
            if r.2.iter().any(|x| *x) || r.3 != m as i64 {
                fail!("C09/reinit", format!("step {}: reinit leaves populated bins", step));
            }
        }
        // invariants after every operation
        let r = real.raw();
        if !nb_empty_consistent(&r) {
            fail!("C09/nb-empty", format!("step {}: nb_empty = {} but {} bins are not populated", step, r.3, r.2.iter().filter(|x| !**x).count()));
        }
        for k in 0..m {
            if r.2[k] && !streamed.contains(&r.1[k]) {
                fail!("C09/foreign-hash", format!("step {}: bin {} holds {:#x} which is not the hash of a streamed item", step, k, r.1[k]));
            }
        }
        // finished sketch: views
        if r.3 == 0 {
            let (f, u, w) = real.views();
            if f != r.0 || u != r.1 {
                fail!("C09/views", format!("step {}: the views differ from the internal state", step));
            }
            if out.triples.len() < 4000 {
                for k in 0..m.min(64) {
                    out.triples.push((u[k], f[k], w[k]));
                }
            }
        }
    }
    out.steps = TOTAL_STEPS.with(|c| c.get());
    probminhash::verif::set_densify_callback(None);
    out
}

pub fn run(rep: &mut Report) {
    quiet_panics();
    rep.rule = "random operation histories over {sketch(d), sketch_slice(ds incl. empty), end_sketch, reinit} (length <= 40, m in 1..512, both algorithms, f32/f64) run on the real sketcher and on a twin that replaces every slice call by item-wise calls + end_sketch; raw state (hook) snapshotted before/after every finishing step: populated bins untouched, every other bin = pair of a bin populated before, nb_empty == #unpopulated, hashes are hashes of streamed items, slice == item-wise + finish, end_sketch idempotent; termination decided on logical steps by the densify progress hook (zero populated bins: futile, violation after 64m+1000 steps; populated bins: 400+40m consecutive search steps (OptDens) or 100 consecutive passes (RevOptDens) without a newly filled bin have probability < e^-40 under the specified keyed sequences and are reported as non-termination); tie leg: f32 sketchers with m in {1,2} and >= 4e5 items (exact ties of the minimum value occur in a few percent of the streams): one slice call against item-wise calls + end_sketch, bit for bit; across all finished sketches u64->u32 and u64->float must be functions. Distinct = (kind, m, seed) histories; non-trivial when a finishing step was observed".into();
    let nh: u64 = rep.tier.pick(40_000, 1_500_000);
    let seed = subseed(rep.seed, "C09", &[]);
    let only = rep.only_cell.clone();
    let res: Vec<(u64, usize, usize, Result<HistOut, String>)> = (0..nh)
        .into_par_iter()
        .filter(|i| only.as_ref().map(|c| c == &format!("hist{}", i) || c == "hist").unwrap_or(true))
        .map(|i| {
            let mut rng = rng_from(mix(&[seed, i, 1]));
            let kind = (i % NKINDS) as usize;
            let m = match rng.random_range(0..8) {
                0 => 1,
                1 => 2,
                2 => 3,
                3 | 4 => rng.random_range(4..32),
                5 | 6 => rng.random_range(32..200),
                _ => rng.random_range(200..513),
            };
            let len = rng.random_range(3..=40);
            let s = mix(&[seed, i, 2]);
            (i, kind, m, catch(move || history(kind, m, s, len)))
        })
        .collect();
    let mut u32map: HashMap<u64, u32> = HashMap::new();
    let mut f32map: HashMap<u64, u64> = HashMap::new();
    let mut f64map: HashMap<u64, u64> = HashMap::new();
    let mut f64nohash_map: HashMap<u64, u64> = HashMap::new();
    let mut total_steps = 0u64;
    for (i, kind, m, r) in res {
        let cell = format!("hist{}", i);
        match r {
            Ok(h) => {
                rep.evaluations += h.nops;
                rep.count("histories", 1);
                rep.count("finishing_steps_checked", h.nfinish);
                rep.count("finishing_steps_on_empty_stream", h.nempty_finish);
                total_steps += h.steps;
                if h.nfinish > 0 {
                    rep.distinct.insert(mix(&[i, kind as u64, m as u64]));
                }
                let case = json!({"sketcher": KNAMES[kind], "m": m, "first_ops": h.ops});
                if i < 3 {
                    rep.sample(case.clone());
                }
                if let Some((k, w)) = h.fail {
                    rep.violation(&k, &cell, format!("{} m={}: {}", KNAMES[kind], m, w), case);
                }
                for (u, f, w) in h.triples {
                    if let Some(prev) = u32map.insert(u, w) {
                        if prev != w {
                            rep.violation("C09/u32-view-not-a-function-of-u64-view", &cell, format!("hash {:#x} is shown as {:#x} and as {:#x} in the u32 view", u, prev, w), json!({"hash": u}));
                        }
                    }
                    let fm = if kind == 0 || kind == 2 { &mut f32map } else if kind < 4 { &mut f64map } else { &mut f64nohash_map };
                    if let Some(prev) = fm.insert(u, f) {
                        if prev != f {
                            rep.violation("C09/float-view-not-a-function-of-u64-view", &cell, format!("hash {:#x} carries float value bits {:#x} and {:#x} in two sketches", u, prev, f), json!({"hash": u}));
                        }
                    }
                }
            }
            Err(p) => rep.violation("C09/panic", &cell, format!("{} m={}: unexpected panic outside a finishing call: {}", KNAMES[kind], m, p), json!({"history": i})),
        }
    }
    // ---- exact ties of the f32 minimum: very many items per bin, one slice call against item-wise calls + end_sketch
    let nties: u64 = rep.tier.pick(160, 3000);
    let nitems: usize = rep.tier.pick(400_000, 600_000);
    let tie_res: Vec<(u64, Result<Option<String>, String>)> = (0..nties)
        .into_par_iter()
        .filter(|i| only.as_ref().map(|c| c == &format!("tie{}", i) || c == "ties").unwrap_or(true))
        .map(|i| {
            (i, catch(move || {
                let mut rng = rng_from(mix(&[seed, i, 0x71e]));
                let kind = if i % 2 == 0 { 0 } else { 2 };
                let m = [1usize, 1, 2][(i % 3) as usize];
                let ids = fresh_ids(&mut rng, nitems, 0);
                let mut a = make(kind, m);
                a.sketch_slice(&ids).map_err(|e| format!("sketch_slice failed: {}", e)).unwrap();
                let mut b = make(kind, m);
                for d in &ids {
                    b.sketch(*d);
                }
                b.end_sketch();
                let (ra, rb) = (a.raw(), b.raw());
                if ra.0 != rb.0 || ra.1 != rb.1 {
                    let p = (0..m).find(|&p| ra.0[p] != rb.0[p] || ra.1[p] != rb.1[p]).unwrap_or(0);
                    Some(format!("{} m={} n={}: one slice call and item-wise calls + end_sketch differ at position {}: value bits {:#x} vs {:#x}, hash {:#x} vs {:#x}", KNAMES[kind], m, nitems, p, ra.0[p], rb.0[p], ra.1[p], rb.1[p]))
                } else {
                    None
                }
            }))
        })
        .collect();
    for (i, r) in tie_res {
        rep.evaluations += 2;
        rep.count("tie_streams", 1);
        rep.distinct.insert(mix(&[i, 0x71e]));
        match r {
            Ok(Some(w)) => rep.violation("C09/slice-vs-itemwise", &format!("tie{}", i), w, json!({"tie_stream": i, "items": nitems})),
            Ok(None) => {}
            Err(p) => rep.violation("C09/panic", &format!("tie{}", i), format!("panic: {}", p), json!({"tie_stream": i})),
        }
    }
    rep.count("densify_search_steps_observed", total_steps);
    rep.count("view_table_entries", (u32map.len() + f32map.len() + f64map.len()) as u64);
    collect_ticks(rep);
    rep.assumptions.push("non-termination with populated bins is decided by a logical-step bound whose false-alarm probability is < e^-40 per finishing step (ChaCha outputs under distinct keys taken as independent)".into());
    rep.assumptions.push("reporting failure = returning Err or panicking with a message".into());
}
