use crate::common::*;

pub fn run(rep: &mut Report) {
    let _ = rep;
    eprintln!("C09 not implemented yet");
}
