//! C10 — ProbOrdMinHash2 collision probability equals the order-min-hash similarity (exact enumeration oracle)
use crate::c11::pairs_of;
use crate::common::*;
use crate::gen::*;
use crate::stat::*;
use fnv::FnvHasher;
use probminhash::probminhasher::probordminhash2::ProbOrdMinHash2;
use rand::Rng as _;
use serde_json::json;
use std::collections::HashMap;

/// exact order-min-hash collision probability of two sequences (given as element ids) for a given l.
/// Ranking of all (element, occurrence) pairs uniformly at random; the l lowest pairs of each sequence, read in
/// sequence order, must spell the same elements. Memoised recursion over (chosen pairs of A, chosen pairs of B).
pub fn omh_oracle(a: &[u64], b: &[u64], l: usize) -> Option<f64> {
    let pa = pairs_of(a);
    let pb = pairs_of(b);
    // universe of pairs
    let mut uni: Vec<(u64, u32)> = pa.iter().chain(pb.iter()).cloned().collect();
    uni.sort_unstable();
    uni.dedup();
    if uni.len() > 62 || a.len() < l || b.len() < l {
        return None;
    }
    let idx = |p: &(u64, u32)| uni.binary_search(p).unwrap();
    let mut mask_a = 0u64;
    let mut mask_b = 0u64;
    // position in the sequence of every universe pair
    let mut pos_a = vec![usize::MAX; uni.len()];
    let mut pos_b = vec![usize::MAX; uni.len()];
    for (i, p) in pa.iter().enumerate() {
        mask_a |= 1 << idx(p);
        pos_a[idx(p)] = i;
    }
    for (i, p) in pb.iter().enumerate() {
        mask_b |= 1 << idx(p);
        pos_b[idx(p)] = i;
    }
    struct Ctx<'a> {
        uni: &'a [(u64, u32)],
        mask_a: u64,
        mask_b: u64,
        pos_a: &'a [usize],
        pos_b: &'a [usize],
        l: u32,
        memo: HashMap<(u64, u64), f64>,
        budget: usize,
    }
    fn spelled(mask: u64, pos: &[usize], uni: &[(u64, u32)]) -> Vec<u64> {
        let mut v: Vec<(usize, u64)> = (0..uni.len()).filter(|&i| mask >> i & 1 == 1).map(|i| (pos[i], uni[i].0)).collect();
        v.sort_unstable();
        v.into_iter().map(|x| x.1).collect()
    }
    fn rec(c: &mut Ctx, sa: u64, sb: u64) -> Option<f64> {
        let fa = sa.count_ones() >= c.l;
        let fb = sb.count_ones() >= c.l;
        if fa && fb {
            return Some(if spelled(sa, c.pos_a, c.uni) == spelled(sb, c.pos_b, c.uni) { 1. } else { 0. });
        }
        if let Some(v) = c.memo.get(&(sa, sb)) {
            return Some(*v);
        }
        if c.memo.len() > c.budget {
            return None;
        }
        let mut rel = 0u64;
        if !fa {
            rel |= c.mask_a;
        }
        if !fb {
            rel |= c.mask_b;
        }
        rel &= !(sa | sb);
        let n = rel.count_ones();
        let mut tot = 0.;
        let mut r = rel;
        while r != 0 {
            let i = r.trailing_zeros();
            r &= r - 1;
            let bit = 1u64 << i;
            let nsa = if !fa && c.mask_a & bit != 0 { sa | bit } else { sa };
            let nsb = if !fb && c.mask_b & bit != 0 { sb | bit } else { sb };
            tot += rec(c, nsa, nsb)?;
        }
        let v = tot / n as f64;
        c.memo.insert((sa, sb), v);
        Some(v)
    }
    let mut ctx = Ctx { uni: &uni, mask_a, mask_b, pos_a: &pos_a, pos_b: &pos_b, l: l as u32, memo: HashMap::new(), budget: 6_000_000 };
    rec(&mut ctx, 0, 0)
}

/// closed form for l = 1 (any number of occurrences): the lowest pair of the union decides.
/// If it belongs to both sequences they collide; if it belongs to A only (element e) the lowest pair of B is uniform over
/// B's pairs and must spell e; symmetrically for B only.
pub fn omh_l1_closed(a: &[u64], b: &[u64]) -> f64 {
    let mut ca: HashMap<u64, f64> = HashMap::new();
    let mut cb: HashMap<u64, f64> = HashMap::new();
    for e in a {
        *ca.entry(*e).or_insert(0.) += 1.;
    }
    for e in b {
        *cb.entry(*e).or_insert(0.) += 1.;
    }
    let mut els: Vec<u64> = ca.keys().chain(cb.keys()).cloned().collect();
    els.sort_unstable();
    els.dedup();
    let (na, nb) = (a.len() as f64, b.len() as f64);
    let mut union = 0.;
    let mut p = 0.;
    for e in &els {
        union += ca.get(e).unwrap_or(&0.).max(*cb.get(e).unwrap_or(&0.));
    }
    for e in &els {
        let x = *ca.get(e).unwrap_or(&0.);
        let y = *cb.get(e).unwrap_or(&0.);
        p += x.min(y) / union;
        p += (x - y).max(0.) / union * (y / nb);
        p += (y - x).max(0.) / union * (x / na);
    }
    p
}

fn heavy_patterns() -> Vec<(&'static str, Vec<u64>, Vec<u64>)> {
    let rep = |e: u64, n: usize| vec![e; n];
    let cat = |v: Vec<Vec<u64>>| v.concat();
    vec![
        ("heavy_a512b256_vs_b256", cat(vec![rep(0, 512), rep(1, 256)]), rep(1, 256)),
        ("heavy_a1000b100_vs_b100", cat(vec![rep(0, 1000), rep(1, 100)]), rep(1, 100)),
        ("heavy_a300_vs_a600b10", rep(0, 300), cat(vec![rep(0, 600), rep(1, 10)])),
        ("heavy_interleaved_ab300_vs_a257b300", (0..600).map(|i| (i % 2) as u64).collect(), cat(vec![rep(0, 257), rep(1, 300)])),
        ("heavy_a70000b30000_vs_b30000", cat(vec![rep(0, 70_000), rep(1, 30_000)]), rep(1, 30_000)),
    ]
}

fn patterns(tier: Tier) -> Vec<(&'static str, Vec<u64>, Vec<u64>)> {
    let r = |a: std::ops::Range<u64>| a.collect::<Vec<u64>>();
    let mut v = vec![
        ("repo_pattern_1", vec![0, 0, 1, 2], vec![0, 1, 1, 2]),
        ("identical_distinct", r(0..8), r(0..8)),
        ("identical_repeats", vec![0, 1, 0, 2, 2, 0], vec![0, 1, 0, 2, 2, 0]),
        ("disjoint", r(0..6), r(10..17)),
        ("shifted_by_2", r(0..10), r(2..12)),
        ("substitution", vec![0, 1, 2, 3, 4, 5, 6, 7], vec![0, 1, 2, 9, 4, 5, 6, 7]),
        ("insertion", vec![0, 1, 2, 3, 4, 5], vec![0, 1, 2, 9, 3, 4, 5]),
        ("deletion_with_repeats", vec![0, 1, 0, 1, 2, 0, 3], vec![0, 1, 1, 2, 0, 3]),
        ("common_prefix", vec![0, 1, 2, 3, 10, 11, 12], vec![0, 1, 2, 3, 20, 21]),
        ("reversed", r(0..7), r(0..7).into_iter().rev().collect()),
        ("binary_01", vec![0, 0, 0, 0, 0, 0, 0, 0, 0, 1, 1, 1], vec![0, 0, 0, 1, 1, 1, 1, 1, 1, 1, 1, 1]),
        ("same_multiset_other_order", vec![0, 1, 2, 0, 1, 2], vec![2, 1, 0, 2, 1, 0]),
        ("one_symbol", vec![5, 5, 5, 5], vec![5, 5, 5, 5, 5, 5]),
        ("swap_adjacent", vec![0, 1, 2, 3, 4, 5], vec![0, 1, 3, 2, 4, 5]),
        // an element in a run that comes back later, against the same multiset in another shape
        ("run_then_recurrence", vec![0, 0, 1, 0], vec![0, 1, 0, 0]),
        ("runs_and_returns", vec![0, 0, 1, 1, 0, 1, 2, 0, 0], vec![0, 1, 0, 1, 0, 0, 2, 1, 0]),
        ("run_returns_vs_interleaved", vec![3, 3, 3, 4, 3, 4, 4, 3], vec![3, 4, 3, 4, 3, 4, 3, 3]),
    ];
    // long l (up to 15): sequences only slightly longer than l keep the exact oracle small (C(len,l)^2 states)
    let mut a17 = r(0..17);
    let mut b17 = r(0..17);
    b17[16] = 99;
    v.push(("len17_substitution_last", a17.clone(), b17.clone()));
    b17 = r(0..17);
    b17.swap(3, 4);
    v.push(("len17_swap", a17.clone(), b17));
    a17 = vec![0, 1, 2, 3, 0, 1, 2, 3, 0, 1, 2, 3, 0, 1, 2, 3, 4];
    v.push(("len17_periodic_vs_shift", a17.clone(), a17.iter().skip(1).cloned().chain(std::iter::once(0)).collect()));
    if tier == Tier::Thorough {
        v.push(("repo_pattern_2", vec![0, 1, 2, 3, 4, 0, 1, 2, 3, 2, 4, 5], vec![0, 1, 2, 6, 4, 0, 7, 1, 2, 3, 2, 4, 5]));
        v.push(("shifted_by_5_len_16", r(0..16), r(5..21)));
    }
    v
}

pub fn run(rep: &mut Report) {
    quiet_panics();
    rep.rule = "cell = (pair of sequence patterns — 17 fixed ones incl. runs that come back later, plus 4 / 10 seeded pairs over a 2-3 letter alphabet —, l, m); per trial the symbols get fresh random labels, hash_set(A) and hash_set(B) run on one real instance (element hasher FNV in half of the trials, the crate's two pass-through hashers in the others), statistic = fraction of equal signature positions; target = exact order-min-hash collision probability from a memoised enumeration of the uniform ranking of all (element, occurrence) pairs (harness oracle, no sketching code); staged z-test; probabilities 0 and 1 are exact. Distinct = cells; non-trivial: 0 < target < 1".into();
    let t1: u64 = rep.tier.pick(6000, 60_000);
    let mut pats = patterns(rep.tier);
    // seeded pairs over a small alphabet (runs, returns, different multiplicities): shapes nobody listed
    let seeded: Vec<(String, Vec<u64>, Vec<u64>)> = {
        let mut r = rng_from(subseed(rep.seed, "C10/seeded-patterns", &[]));
        (0..rep.tier.pick(4, 10))
            .map(|k| {
                let alpha = r.random_range(2..=3u64);
                let la = r.random_range(4..=9usize);
                let a: Vec<u64> = (0..la).map(|_| r.random_range(0..alpha)).collect();
                // b: a permutation of a (same multiset), or an independent sequence
                let b: Vec<u64> = if r.random_range(0..3) > 0 {
                    let mut b = a.clone();
                    shuffle(&mut b, &mut r);
                    b
                } else {
                    let lb = r.random_range(4..=9usize);
                    (0..lb).map(|_| r.random_range(0..alpha)).collect()
                };
                (format!("seeded{}_{}_vs_{}", k, a.iter().map(|x| x.to_string()).collect::<String>(), b.iter().map(|x| x.to_string()).collect::<String>()), a, b)
            })
            .collect()
    };
    let seeded_refs: Vec<(&str, Vec<u64>, Vec<u64>)> = seeded.iter().map(|(n, a, b)| (n.as_str(), a.clone(), b.clone())).collect();
    let mut all: Vec<(&str, Vec<u64>, Vec<u64>)> = Vec::new();
    all.append(&mut pats);
    all.extend(seeded_refs);
    let pats = all;
    let ms: Vec<u32> = vec![1, 4, 32, 64, 1024];
    let mut ci = 0u64;
    for (pname, pa, pb) in &pats {
        for l in [1usize, 2, 3, 4, 5, 8, 12, 15] {
            if l > 5 && !pname.starts_with("len17") {
                continue;
            }
            if pa.len() < l || pb.len() < l {
                continue;
            }
            let oracle = omh_oracle(pa, pb, l);
            for &m in &ms {
                ci += 1;
                let hsel = mix(&[ci, rep.seed, 0xC10]);
                if rep.tier == Tier::Quick && hsel % 4 != 0 && !(*pname == "repo_pattern_1" && m == 1 && l == 1) && !(l > 5 && m == 32) && !((pname.starts_with("run") || pname.starts_with("seeded")) && l == 2 && m == 4) {
                    continue;
                }
                let cell = format!("{}/l={}/m={}", pname, l, m);
                if !rep.want(&cell) {
                    continue;
                }
                let theta = match oracle {
                    Some(t) => t,
                    None => {
                        rep.inconclusive.push(format!("cell={} oracle state space too large", cell));
                        continue;
                    }
                };
                let degenerate = theta <= 1e-12 || theta >= 1. - 1e-12;
                let th = if degenerate { theta.round() } else { theta };
                let cost = ((pa.len() + pb.len()) as f64) * (m as f64).min(200.) + 100.;
                let budget: f64 = rep.tier.pick(4e7, 4e9);
                let tt = ((budget / cost) as u64).clamp(500, t1);
                let minority = th.min(1. - th);
                let enough = (tt as f64) * m as f64 * minority >= 400. && (tt as f64) * (m as f64 * minority).min(1.) >= 80.;
                let targets = vec![Target::new("collision_fraction", th, if degenerate { Kind::Exact } else if enough { Kind::TwoSided } else { Kind::Info })];
                // symbols used
                let nsym = pa.iter().chain(pb.iter()).cloned().max().unwrap() as usize + 1;
                let seed = subseed(rep.seed, "C10", &[ci]);
                let (rs, trials) = staged(seed, tt, 3, &targets, |rng, out| {
                    let labels = fresh_ids(rng, nsym, 0);
                    let a: Vec<u64> = pa.iter().map(|&s| labels[s as usize]).collect();
                    let b: Vec<u64> = pb.iter().map(|&s| labels[s as usize]).collect();
                    // the element hasher is a type parameter: FNV in half of the trials, the crate's two pass-through hashers
                    // (labels are their own hashes) in the others
                    macro_rules! both {
                        ($h:ty) => {{
                            let mut sk = ProbOrdMinHash2::<$h>::new(m, l);
                            // B before A in half of the trials
                            if rng.random_range(0..2) == 0 {
                                let sa = sk.hash_set(&a);
                                (sa, sk.hash_set(&b))
                            } else {
                                let sb = sk.hash_set(&b);
                                (sk.hash_set(&a), sb)
                            }
                        }};
                    }
                    let (sa, sb) = match rng.random_range(0..4) {
                        0 => both!(probminhash::nohasher::NoHashHasher),
                        1 => both!(probminhash::superminhasher::NoHashHasher),
                        _ => both!(FnvHasher),
                    };
                    let eq = sa.iter().zip(sb.iter()).filter(|(x, y)| x == y).count();
                    out[0] = eq as f64 / m as f64;
                });
                let case = json!({"pattern": pname, "A": pa, "B": pb, "l": l, "m": m, "oracle_collision_probability": theta});
                if ci % 23 == 1 || (*pname == "repo_pattern_1" && m == 1 && l == 1) {
                    rep.sample(case.clone());
                }
                if !degenerate {
                    rep.distinct.insert(mix(&[fnv64(pname.as_bytes()), l as u64, m as u64]));
                }
                record_cell(rep, "C10", &cell, &rs, trials * 2, case);
            }
        }
    }
    // ---- l = 1 with heavily repeated elements (hundreds to tens of thousands of occurrences): closed-form oracle
    // self-check of the two oracles against each other on the small patterns
    for (pname, pa, pb) in &pats {
        if let Some(ex) = omh_oracle(pa, pb, 1) {
            let cf = omh_l1_closed(pa, pb);
            if (ex - cf).abs() > 1e-12 {
                rep.inconclusive.push(format!("oracle self-check failed on {}: enumeration {} vs closed form {}", pname, ex, cf));
            }
        }
    }
    for (hi, (pname, pa, pb)) in heavy_patterns().iter().enumerate() {
        for &m in &[1u32, 16] {
            let cell = format!("{}/l=1/m={}", pname, m);
            if !rep.want(&cell) {
                continue;
            }
            if pa.len() > 5000 && m != 1 {
                continue;
            }
            let theta = omh_l1_closed(pa, pb);
            let tt: u64 = if pa.len() > 5000 { rep.tier.pick(600, 6000) } else { rep.tier.pick(3000, 30_000) };
            let minority = theta.min(1. - theta);
            let enough = (tt as f64) * m as f64 * minority >= 400. && (tt as f64) * (m as f64 * minority).min(1.) >= 80.;
            let targets = vec![Target::new("collision_fraction", theta, if enough { Kind::TwoSided } else { Kind::Info })];
            let seed = subseed(rep.seed, "C10/heavy", &[hi as u64, m as u64]);
            let (rs, trials) = staged(seed, tt, 3, &targets, |rng, out| {
                let labels = fresh_ids(rng, 2, 0);
                let a: Vec<u64> = pa.iter().map(|&s| labels[s as usize]).collect();
                let b: Vec<u64> = pb.iter().map(|&s| labels[s as usize]).collect();
                let mut sk = ProbOrdMinHash2::<FnvHasher>::new(m, 1);
                let sa = sk.hash_set(&a);
                let sb = sk.hash_set(&b);
                let eq = sa.iter().zip(sb.iter()).filter(|(x, y)| x == y).count();
                out[0] = eq as f64 / m as f64;
            });
            let case = json!({"pattern": pname, "len_A": pa.len(), "len_B": pb.len(), "l": 1, "m": m, "oracle_collision_probability": theta});
            rep.distinct.insert(mix(&[fnv64(pname.as_bytes()), 1, m as u64]));
            record_cell(rep, "C10", &cell, &rs, trials * 2, case);
        }
    }
    collect_ticks(rep);
    rep.assumptions.push("two signature positions are equal iff the spelled l-tuples are equal (64-bit combined hash; collisions negligible)".into());
}
