use crate::common::*;

pub fn run(rep: &mut Report) {
    let _ = rep;
    eprintln!("C10 not implemented yet");
}
