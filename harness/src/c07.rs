use crate::common::*;

pub fn run(rep: &mut Report) {
    let _ = rep;
    eprintln!("C07 not implemented yet");
}
