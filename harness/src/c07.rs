//! C07 — SetSketch register collisions follow the model; Jaccard bounds hold
use crate::common::*;
use crate::gen::*;
use crate::sk::setsketch_a_q;
use crate::stat::*;
use fnv::FnvHasher;
use probminhash::jaccard::get_jaccard_index_estimate;
use probminhash::setsketcher::{SetSketchParams, SetSketcher};
use rand::Rng as _;
use rayon::prelude::*;
use serde_json::json;

/// exact collision probability P(K_A = K_B) of one register, clipping included.
/// registers: k = clamp(floor(1 - log_b x), 0, top); x in (b^-k, b^(1-k)] for 0<k<top, x > 1 for k = 0, x <= b^(1-top) for k = top
pub fn collision_model(b: f64, a: f64, top: u64, n0: f64, n1: f64, n2: f64) -> f64 {
    let r0 = a * n0;
    let r1 = a * n1;
    let r2 = a * n2;
    // survival S_r(x) = exp(-r x); P(X in (lo,hi]) = exp(-r lo) * (1 - exp(-r (hi-lo)))
    let surv = |r: f64, x: f64| if r == 0. { 1. } else { (-r * x).exp() };
    let inside = |r: f64, lo: f64, hi: f64| {
        if r == 0. {
            0.
        } else if hi.is_infinite() {
            (-r * lo).exp()
        } else {
            (-r * lo).exp() * (-(-r * (hi - lo)).exp_m1())
        }
    };
    let lnb = b.ln();
    let mut p = 0.;
    // k = 0 : (1, inf)
    p += inside(r0, 1., f64::INFINITY) * surv(r1, 1.) * surv(r2, 1.);
    // X0 > inf impossible
    let rmax = r0 + r1 + r2;
    // intervals whose lower end is so large that every non-zero rate has underflowed contribute nothing: skip them
    let rmin = [r0, r1, r2].iter().cloned().filter(|r| *r > 0.).fold(f64::INFINITY, f64::min);
    let kstart = if rmin.is_finite() && rmin > 800. { (((rmin / 800.).ln() / lnb).floor() as u64).saturating_sub(1).max(1).min(top) } else { 1 };
    for k in kstart..=top {
        let lo = if k == top { 0. } else { (-(k as f64) * lnb).exp() };
        let hi = ((1. - k as f64) * lnb).exp();
        let t = inside(r0, lo, hi) * surv(r1, lo) * surv(r2, lo) + surv(r0, hi) * inside(r1, lo, hi) * inside(r2, lo, hi);
        p += t;
        // beyond this point every interval has negligible mass for all three rates
        if k < top && rmax * hi < 1e-22 {
            // remaining mass (all variables below hi is impossible beyond double precision) - jump to the clipped bin only if reachable
            break;
        }
    }
    p
}

macro_rules! trial_body {
    ($t:ty, $params:expr, $a:expr, $b:expr, $reuse:expr, $rng:expr) => {{
        if $reuse {
            // one sketcher: unrelated set, reinit, A, (signature), reinit, B
            let mut s = SetSketcher::<$t, u64, FnvHasher>::new($params, Default::default());
            let m = $params.get_m() as usize;
            // every stream starts with the item the previous one ended with (state kept across reinit would show)
            let mut junk = fresh_ids($rng, (10 * m).min(5000) + 3, 0);
            if !$a.is_empty() {
                junk.push($a[0]);
            }
            s.sketch_slice(&junk).unwrap();
            s.reinit();
            s.sketch_slice(&$a).unwrap();
            let sa = s.get_signature().clone();
            s.reinit();
            let mut b2: Vec<u64> = $b.clone();
            if let (Some(last), false) = ($a.last(), b2.is_empty()) {
                if let Some(p) = b2.iter().position(|x| x == last) {
                    b2.swap(0, p);
                }
            }
            s.sketch_slice(&b2).unwrap();
            get_jaccard_index_estimate(&sa, s.get_signature()).unwrap()
        } else {
            let mut sa = SetSketcher::<$t, u64, FnvHasher>::new($params, Default::default());
            let mut sb = SetSketcher::<$t, u64, FnvHasher>::new($params, Default::default());
            sa.sketch_slice(&$a).unwrap();
            sb.sketch_slice(&$b).unwrap();
            get_jaccard_index_estimate(sa.get_signature(), sb.get_signature()).unwrap()
        }
    }};
}

fn trial_fraction<const U16: bool>(params: SetSketchParams, n0: usize, n1: usize, n2: usize, reuse: bool, rng: &mut Rng) -> f64 {
    let ids = fresh_ids(rng, n0 + n1 + n2, 0);
    let mut a: Vec<u64> = ids[..n0 + n1].to_vec();
    let mut b: Vec<u64> = ids[..n0].to_vec();
    b.extend_from_slice(&ids[n0 + n1..]);
    shuffle(&mut a, rng);
    shuffle(&mut b, rng);
    // half of the trials stream the sets with repeated items (right away, and spread)
    if rng.random_range(0..2) == 0 && !a.is_empty() && !b.is_empty() {
        let n = a.len().min(200);
        for i in 0..n / 3 + 1 {
            let x = a[i];
            a.insert(i + 1, x);
        }
        for _ in 0..b.len().min(200) / 3 + 1 {
            let x = b[rng.random_range(0..b.len())];
            let p = rng.random_range(0..=b.len());
            b.insert(p, x);
        }
    }
    if U16 {
        trial_body!(u16, params, a, b, reuse, rng)
    } else {
        trial_body!(u32, params, a, b, reuse, rng)
    }
}

pub fn run(rep: &mut Report) {
    quiet_panics();
    rep.rule = "S: cell = (b, m, register type, |A∩B|, |A\\B|, |B\\A|) with a, q as documented; per trial fresh items, both sets sketched by the real code, statistic = jaccard::get_jaccard_index_estimate of the two signatures, target = exact per-register collision probability of the model (three exponentials, register intervals, clipping at 0 and at min(q+1, I::MAX)); staged z-test. E(i): grid of cardinality triples x b (18 fixed values, b-1 log-spaced by quarter decades over [1e-5,1], seeded random b): model p -> get_jaccard_bounds(p) must bracket J within 1e-4. E(ii): get_jaccard_bounds on EVERY fraction D/m for all m <= M (exhaustive for the sketch sizes covered) and near both ends for m in {4096, 65536, 1e6}, under catch_unwind: returns, and low <= high + 8*2^-52/(b-1). Distinct = cells / (b, D, m) points; non-trivial: 0 < p < 1".into();
    // ---------------- S
    let t1: u64 = rep.tier.pick(3000, 30_000);
    let shapes: Vec<(&str, usize, usize, usize)> = vec![
        ("balanced", 1000, 1000, 1000),
        ("nested", 300, 0, 700),
        ("disjoint", 0, 500, 800),
        ("identical", 400, 0, 0),
        ("small", 2, 1, 3),
        ("one_vs_many", 1, 0, 100_000),
        ("high_j", 950, 20, 30),
        ("one_vs_million", 1, 0, 1_000_000),
    ];
    let mut ci = 0u64;
    // fixed b values and two seeded ones per run (a piecewise formula with a threshold between grid points would otherwise never run)
    let mut sbs: Vec<f64> = vec![1.001f64, 1.1, 1.5, 2.0];
    {
        let mut r = rng_from(subseed(rep.seed, "C07/S-b", &[]));
        for _ in 0..2 {
            sbs.push(((1. + 10f64.powf(r.random_range(-3.0..0.0))) * 1e4f64).round() / 1e4);
        }
    }
    for &b in &sbs {
        // m: 1, a size below 8, sizes that are no multiple of 4 or 8, and the usual powers of two
        for &m in &[1u64, 5, 64, 101, 4096] {
            for (si, (sname, n0, n1, n2)) in shapes.iter().enumerate() {
                ci += 1;
                let ntot = n0 + n1 + n2;
                if *sname == "one_vs_million" && (rep.tier == Tier::Quick || m != 64) {
                    continue;
                }
                let hsel = mix(&[ci, rep.seed, 0xC07]);
                if rep.tier == Tier::Quick && hsel % 2 == 0 && *sname != "identical" {
                    continue;
                }
                if *sname == "identical" && hsel % 4 != 0 {
                    continue;
                }
                let u16reg = (hsel >> 8) % 2 == 0;
                let reuse = (hsel >> 20) % 3 == 0 && m <= 64;
                let cell = format!("S/b={}/m={}/{}/{}{}", b, m, if u16reg { "u16" } else { "u32" }, sname, if reuse { "/reused" } else { "" });
                if !rep.want(&cell) {
                    continue;
                }
                // sometimes a deliberately small q so that clipping at q+1 is part of the observed law
                let (a, q) = if ci % 5 == 0 { (20., ((ntot as f64 * 20.).ln() / b.ln()) as u64 + 2) } else { setsketch_a_q(b, m, (*n0 + (*n1).max(*n2)) as f64, 1e-6) };
                let a = if (hsel >> 28) % 2 == 0 { a + 0.35 } else { a };
                if u16reg && q + 1 > 65535 {
                    continue;
                }
                let top = (q + 1).min(if u16reg { 65535 } else { u32::MAX as u64 });
                let params = SetSketchParams::new(b, m, a, q);
                let p = collision_model(b, a, top, *n0 as f64, *n1 as f64, *n2 as f64);
                let degenerate = *n1 == 0 && *n2 == 0;
                let cost = (ntot.min(5 * m as usize) as f64) * m as f64 + 30. * ntot as f64;
                let budget: f64 = rep.tier.pick(1.0e9, 1.5e10);
                let tt = ((budget / cost) as u64).clamp(200, t1);
                let minority = p.min(1. - p);
                let enough = (tt as f64) * m as f64 * minority >= 400. && (tt as f64) * (m as f64 * minority).min(1.) >= 80.;
                let targets = vec![Target::new("register_collision_fraction", if degenerate { 1. } else { p }, if degenerate { Kind::Exact } else if enough { Kind::TwoSided } else { Kind::Info })];
                let seed = subseed(rep.seed, "C07/S", &[ci]);
                let (n0, n1, n2) = (*n0, *n1, *n2);
                let (rs, trials) = staged(seed, tt, 3, &targets, |rng, out| {
                    out[0] = if u16reg { trial_fraction::<true>(params, n0, n1, n2, reuse, rng) } else { trial_fraction::<false>(params, n0, n1, n2, reuse, rng) };
                });
                let case = json!({"b": b, "m": m, "a": a, "q": q, "registers": if u16reg { "u16" } else { "u32" }, "n_both": n0, "n_a_only": n1, "n_b_only": n2, "one_sketcher_reused_with_reinit": reuse, "model_collision_probability": p, "J": n0 as f64 / ntot as f64});
                if ci % 13 == 1 {
                    rep.sample(case.clone());
                }
                if !degenerate {
                    rep.distinct.insert(mix(&[b.to_bits(), m, si as u64, u16reg as u64]));
                }
                record_cell(rep, "C07", &cell, &rs, trials * 2, case);
            }
        }
    }
    // ---------------- E (i): bounds bracket J on a grid
    if rep.want("bracket") {
        let mut pts = Vec::new();
        // b: fixed values, a log-spaced grid of b-1 over [1e-5, 1] (quarter decades, so that any threshold of a piecewise formula has
        // grid points just below it), values just below round thresholds, and seeded random ones
        let mut bgrid: Vec<f64> = vec![1.0001, 1.001, 1.01, 1.1, 1.5, 2.0, 1.05, 1.09, 1.099, 1.0999, 1.2, 1.25, 1.3, 1.49, 1.75, 1.9, 1.99, 1.999];
        for k in 0..=20 {
            bgrid.push(1. + 10f64.powf(-(k as f64) / 4.));
        }
        let mut brng = rng_from(subseed(rep.seed, "C07/bracket-b", &[]));
        for _ in 0..rep.tier.pick(24, 160) {
            bgrid.push(1. + 10f64.powf(brng.random_range(-5.0..0.0)));
        }
        let budget: f64 = rep.tier.pick(1.5e8, 1e9);
        for &b in &bgrid {
            // the model sums about 70/ln(b) register intervals per point: for b very close to 1 a seeded subsample of the grid is used
            let keep = (budget / (1764. * 70. / b.ln())).min(1.);
            for &ntot in &[10.0f64, 1e3, 1e5, 1e7] {
                for i0 in 0..=20u64 {
                    for i1 in 0..=20u64 {
                        if keep >= 1. || (mix(&[b.to_bits(), ntot.to_bits(), i0, i1, rep.seed]) >> 11) as f64 / (1u64 << 53) as f64 <= keep {
                            pts.push((b, ntot, i0, i1));
                        }
                    }
                }
            }
        }
        let res: Vec<(f64, f64, u64, u64, f64, f64, f64, f64, Result<(f64, f64), String>)> = pts
            .par_iter()
            .map(|&(b, ntot, i0, i1)| {
                let params = SetSketchParams::new(b, 4096, 20., 1 << 30);
                let j = i0 as f64 / 20.;
                let rest = 1. - j;
                let f1 = i1 as f64 / 20.;
                let (n0, n1, n2) = (ntot * j, ntot * rest * f1, ntot * rest * (1. - f1));
                let p = collision_model(b, 20., u64::MAX >> 1, n0, n1, n2).min(1.);
                (b, ntot, i0, i1, p, n0, n1, n2, catch(move || params.get_jaccard_bounds(p)))
            })
            .collect();
        let mut npts = 0u64;
        let mut worst: f64 = f64::NEG_INFINITY;
        for (b, ntot, i0, i1, p, n0, n1, n2, r) in res {
            let j = i0 as f64 / 20.;
            npts += 1;
            match r {
                Ok((lo, hi)) => {
                    let excess = (lo - j).max(j - hi);
                    worst = worst.max(excess);
                    if excess > 1e-4 {
                        rep.violation("C07/bounds-do-not-bracket", "bracket", format!("b={} sizes (both {}, A only {}, B only {}): collision probability {} gives bounds ({}, {}) which do not contain J={}", b, n0, n1, n2, p, lo, hi, j), json!({"b": b, "n0": n0, "n1": n1, "n2": n2, "p": p}));
                    }
                }
                Err(_) => rep.count("bracket.panics", 1), // aborts are judged by E(ii)
            }
            rep.distinct.insert(mix(&[b.to_bits(), ntot.to_bits(), i0, i1]));
        }
        rep.evaluations += npts;
        rep.count("bracket.points", npts);
        rep.extra.insert("bracket_worst_excess".into(), json!(worst));
    }
    // ---------------- E (ii): every collision fraction
    if rep.want("fractions") {
        let maxm: u64 = rep.tier.pick(1024, 2048);
        let bs = [1.00001, 1.0001, 1.001, 1.01, 1.1, 1.5, 2.0];
        let mut ms: Vec<u64> = (1..=maxm).collect();
        ms.extend_from_slice(&[4096, 65536, 1_000_000]);
        let res: Vec<(u64, Vec<(String, String, serde_json::Value)>)> = ms
            .par_iter()
            .map(|&m| {
                let mut n = 0u64;
                let mut fails = Vec::new();
                for &b in &bs {
                    let params = SetSketchParams::new(b, m, 20., 65534);
                    let ds: Vec<u64> = if m <= maxm { (0..=m).collect() } else { (0..=2000).chain(m - 2000..=m).chain((0..2000).map(|i| i * (m / 2000))).collect() };
                    for d in ds {
                        let p = d as f64 / m as f64;
                        n += 1;
                        match catch(move || params.get_jaccard_bounds(p)) {
                            Ok((lo, hi)) => {
                                let tol = 8. * f64::EPSILON / (b - 1.);
                                if !(lo <= hi + tol) || !lo.is_finite() || !hi.is_finite() {
                                    if fails.len() < 3 {
                                        fails.push(("C07/bounds-inverted".to_string(), format!("b={} fraction {}/{}: lower {} exceeds upper {} beyond rounding ({:e})", b, d, m, lo, hi, tol), json!({"b": b, "D": d, "m": m})));
                                    }
                                }
                            }
                            Err(msg) => {
                                if fails.len() < 3 {
                                    fails.push(("C07/bounds-abort".to_string(), format!("get_jaccard_bounds aborts for b={} at collision fraction {}/{} : {}", b, d, m, msg), json!({"b": b, "D": d, "m": m})));
                                }
                            }
                        }
                    }
                }
                (n, fails)
            })
            .collect();
        let mut tot = 0;
        for (n, fails) in res {
            tot += n;
            for (k, w, c) in fails {
                rep.violation(&k, "fractions", w, c);
            }
        }
        rep.evaluations += tot;
        rep.count("fractions.points", tot);
        rep.extra.insert("fractions_exhaustive".into(), json!({"all_D_over_m_for_m_up_to": maxm, "b_values": bs, "points": tot, "exhaustive_for_those_m": true}));
        rep.sample(json!({"bounds_call": {"b": 1.001, "D": 4095, "m": 4096}, "result": format!("{:?}", catch(|| SetSketchParams::new(1.001, 4096, 20., 65534).get_jaccard_bounds(4095. / 4096.)))}));
    }
    collect_ticks(rep);
    rep.assumptions.push("the collision model is evaluated in f64 with expm1; its error (<1e-12) is far below the statistical resolution".into());
}
