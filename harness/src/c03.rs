use crate::common::*;

pub fn run(rep: &mut Report) {
    let _ = rep;
    eprintln!("C03 not implemented yet");
}
