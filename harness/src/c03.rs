//! C03 — SuperMinHash / SuperMinHash2 estimate the Jaccard index without bias, variance below MinHash;
//! single-item sketches carry a uniformly random permutation of integer parts with independent uniform fractional parts
use crate::common::*;
use crate::gen::*;
use crate::sk::*;
use crate::stat::*;
use rand::Rng as _;
use rayon::prelude::*;
use serde_json::json;

/// fresh identifiers whose hashes (as the sketcher computes them) are pairwise distinct
pub fn fresh_ids_distinct_hash(rng: &mut Rng, n: usize, kind: UKind) -> (Vec<u64>, u64) {
    let mut regenerated = 0;
    loop {
        let ids = fresh_ids(rng, n, 0);
        if !matches!(kind, UKind::Smh2U32) {
            return (ids, regenerated);
        }
        let mut hs: Vec<u64> = ids.iter().map(|&d| kind.item_hash(d)).collect();
        hs.sort_unstable();
        if hs.windows(2).all(|w| w[0] != w[1]) {
            return (ids, regenerated);
        }
        regenerated += 1;
    }
}

struct Shape {
    name: &'static str,
    a_only: usize,
    b_only: usize,
    both: usize,
}

fn perm_index(p: &[usize]) -> usize {
    let m = p.len();
    let mut idx = 0;
    for i in 0..m {
        let smaller = p[i + 1..].iter().filter(|&&x| x < p[i]).count();
        idx = idx * (m - i) + smaller;
    }
    idx
}

/// classify a single item sketch: Ok(integer parts) if a permutation, Err(kind of failure)
fn int_parts(vals: &[f64]) -> Result<Vec<usize>, (String, String)> {
    let m = vals.len();
    let mut seen = vec![false; m];
    let mut parts = Vec::with_capacity(m);
    let mut dup: Option<(usize, f64)> = None;
    for (p, v) in vals.iter().enumerate() {
        let f = v.floor();
        if !(f >= 0. && (f as usize) < m) {
            // value m exactly can arise from the f32 round-up of (m-1) + r
            if *v == m as f64 {
                dup = Some((p, *v));
                parts.push(m);
                continue;
            }
            return Err(("C03/single-item-not-permutation".into(), format!("position {} holds {} : integer part outside 0..m", p, v)));
        }
        let fi = f as usize;
        if seen[fi] {
            dup = Some((p, *v));
        }
        seen[fi] = true;
        parts.push(fi);
    }
    if let Some((p, v)) = dup {
        // which part is missing ?
        let missing: Vec<usize> = (0..m).filter(|&i| !seen[i]).collect();
        // round-up signature: some position holds an exactly integral value j+1 and part j is the missing one
        let roundup = vals.iter().any(|x| x.fract() == 0. && *x >= 1. && missing.contains(&((*x as usize) - 1)));
        if roundup && missing.len() == vals.iter().filter(|x| x.fract() == 0. && **x >= 1. && missing.contains(&((**x as usize) - 1))).count() {
            let (ip, iv) = vals.iter().enumerate().find(|(_, x)| x.fract() == 0. && **x >= 1. && missing.contains(&((**x as usize) - 1))).map(|(i, x)| (i, *x)).unwrap_or((p, v));
            return Err(("C03/f32-roundup".into(), format!("integer parts are not a permutation: position {} holds the exactly integral value {} (r + j rounded up to j+1), part(s) {:?} missing", ip, iv, missing)));
        }
        return Err(("C03/single-item-not-permutation".into(), format!("integer parts are not a permutation of 0..m: duplicate at position {} (value {}), missing {:?}", p, v, missing)));
    }
    Ok(parts)
}

pub fn run(rep: &mut Report) {
    quiet_panics();
    rep.rule = "S: cell = (sketch type, m, set shape); per trial fresh random identifiers (hash collisions under the 32-bit hasher regenerated), both sets sketched by the real code; statistics: collision fraction (target J), squared error (bound J(1-J)/m, one-sided), staged z-tests. E: every single-item SuperMinHash sketch must carry a permutation of integer parts 0..m-1 (every trial); uniformity: all m! orders for m<=4, position x part table for m in {8,32} (chi-square), fractional parts KS-free moment tests and correlations (position 0 vs 1, fraction vs integer part). Non-trivial cell: 0<J<1; distinct by (kind, m, shape) and, for single items, by item".into();
    let shapes = vec![
        Shape { name: "disjoint", a_only: 20, b_only: 30, both: 0 },
        Shape { name: "equal", a_only: 0, b_only: 0, both: 25 },
        Shape { name: "nested_small", a_only: 0, b_only: 3, both: 1 },
        Shape { name: "nested", a_only: 0, b_only: 200, both: 100 },
        Shape { name: "partial", a_only: 30, b_only: 50, both: 40 },
        Shape { name: "two_items", a_only: 1, b_only: 0, both: 1 },
        Shape { name: "big_partial", a_only: 1000, b_only: 3000, both: 2000 },
        Shape { name: "tiny_vs_huge", a_only: 0, b_only: 9999, both: 1 },
        Shape { name: "high_j", a_only: 1, b_only: 2, both: 97 },
    ];
    let kinds = [UKind::SmhF32, UKind::SmhF64, UKind::SmhF64NoHash, UKind::Smh2U64, UKind::Smh2U32];
    let ms = [1usize, 2, 16, 64, 256, 1000];
    let t1: u64 = rep.tier.pick(4000, 40_000);
    // ---------------- S part
    let mut cells = Vec::new();
    let mut crng = rng_from(subseed(rep.seed, "C03/cells", &[]));
    for (ki, k) in kinds.iter().enumerate() {
        for (si, s) in shapes.iter().enumerate() {
            for (mi, m) in ms.iter().enumerate() {
                // quick: a seeded third of the product, thorough: everything
                let keep = rep.tier == Tier::Thorough || (ki + si + mi) % 3 == (rep.seed % 3) as usize || crng.random_range(0..6) == 0;
                let big = s.a_only + s.b_only + s.both >= 5000;
                if keep && !(big && rep.tier == Tier::Quick && (ki + mi) % 3 != 0) {
                    cells.push((*k, si, *m));
                }
            }
        }
    }
    for (ci, (kind, si, m)) in cells.iter().enumerate() {
        let s = &shapes[*si];
        let cell = format!("S/{}/m={}/{}", kind.name(), m, s.name);
        if !rep.want(&cell) {
            continue;
        }
        let n = s.a_only + s.b_only + s.both;
        let j = s.both as f64 / n as f64;
        let degenerate = j == 0. || j == 1.;
        let tt = if n >= 5000 { (t1 / 8).max(500) } else { t1 };
        let enough = |p: f64| (tt as f64) * (*m as f64 * p.min(1. - p)).min(1.) >= 400.;
        // disjoint sets: integer sketches hold item hashes (equal only for equal items), but a float sketch holds values and two
        // different items can legitimately round to the same f32/f64 value at a position: a small allowance instead of "exactly 0"
        let float_kind = matches!(kind, UKind::SmhF32 | UKind::SmhF64 | UKind::SmhF64NoHash);
        let coincidence = if matches!(kind, UKind::SmhF32) { 1e-4 } else { 1e-9 };
        let targets = if j == 0. && float_kind {
            vec![Target::new("collision_fraction", coincidence, Kind::Upper), Target::new("squared_error", coincidence, Kind::Upper)]
        } else {
            vec![
                Target::new("collision_fraction", j, if degenerate { Kind::Exact } else if enough(j) { Kind::TwoSided } else { Kind::Info }),
                Target::new("squared_error", j * (1. - j) / *m as f64, if degenerate { Kind::Exact } else if enough(j) { Kind::Upper } else { Kind::Info }),
            ]
        };
        let seed = subseed(rep.seed, "C03/S", &[ci as u64]);
        let kind = *kind;
        let m = *m;
        let reuse = mix(&[ci as u64, rep.seed, 0xC03]) % 2 == 0;
        let cell = if reuse { format!("{}/reused", cell) } else { cell };
        // half of the cells stream the sets with repeated items (a set is what was streamed, however often)
        let dups = (mix(&[ci as u64, rep.seed, 0xC03]) >> 9) % 2 == 0;
        let cell = if dups { format!("{}/dups", cell) } else { cell };
        let (rs, trials) = staged(seed, tt, 3, &targets, |rng, out| {
            let (ids, _) = fresh_ids_distinct_hash(rng, n, kind);
            let mut a: Vec<u64> = ids[..s.a_only].to_vec();
            a.extend_from_slice(&ids[s.a_only + s.b_only..]);
            let mut b: Vec<u64> = ids[s.a_only..].to_vec();
            shuffle(&mut a, rng);
            shuffle(&mut b, rng);
            if dups {
                // a: some items again right away and the first item once more at the end; b: a third of the items again, spread
                let mut a2 = Vec::with_capacity(a.len() * 3 / 2 + 2);
                for (i, x) in a.iter().enumerate() {
                    a2.push(*x);
                    if i % 3 == 0 {
                        a2.push(*x);
                    }
                }
                a2.push(a[0]);
                a = a2;
                let extra: Vec<u64> = b.iter().step_by(3).cloned().collect();
                for x in extra {
                    let p = rng.random_range(0..=b.len());
                    b.insert(p, x);
                }
            }
            let (ba, bb) = if reuse {
                // the reuse pattern recommended by the README: one sketcher, reinit between sets (after an unrelated first set)
                let mut sk = make_usk(kind, m);
                let njunk = if rng.random_range(0..2) == 0 { 3 * m + 10 } else { 2 };
                sk.sketch_slice(&fresh_ids(rng, njunk, 0));
                sk.reinit();
                sk.sketch_slice(&a);
                let ba = sk.bits();
                sk.reinit();
                for x in &b {
                    sk.sketch(*x);
                }
                (ba, sk.bits())
            } else {
                // A through 1-3 slice calls (streaming in batches), B item-wise
                let mut ska = make_usk(kind, m);
                let nb = rng.random_range(1..=3usize).min(a.len());
                for c in a.chunks(a.len().div_ceil(nb)) {
                    ska.sketch_slice(c);
                }
                let mut skb = make_usk(kind, m);
                for x in &b {
                    skb.sketch(*x);
                }
                (ska.bits(), skb.bits())
            };
            let eq = ba.iter().zip(bb.iter()).filter(|(x, y)| x == y).count();
            let x = eq as f64 / m as f64;
            out[0] = x;
            out[1] = (x - j) * (x - j);
        });
        let case = json!({"kind": kind.name(), "m": m, "shape": s.name, "a_only": s.a_only, "b_only": s.b_only, "both": s.both, "J": j, "one_sketcher_reused_with_reinit": reuse, "streamed_with_repeated_items": dups});
        if ci < 2 {
            rep.sample(case.clone());
        }
        if !degenerate {
            rep.distinct.insert(mix(&[fnv64(kind.name().as_bytes()), m as u64, *si as u64]));
        }
        record_cell(rep, "C03", &cell, &rs, trials * 2, case);
    }
    // ---------------- E part: single item sketches
    for (kind, label) in [(UKind::SmhF64, "f64"), (UKind::SmhF64NoHash, "f64nohash"), (UKind::SmhF32, "f32")] {
        for m in [1usize, 2, 3, 4, 8, 32, 64, 1024, 4096] {
            let cell = format!("E/single/{}/m={}", label, m);
            if !rep.want(&cell) {
                continue;
            }
            let ntr: u64 = rep.tier.pick(if m >= 1024 { 3000 } else { 60_000 }, if m >= 1024 { 30_000 } else { 600_000 });
            let seed = subseed(rep.seed, &cell, &[]);
            // permutation-ness of every trial + moment statistics
            let nchunks = 64u64;
            let res: Vec<(u64, Vec<(String, String, u64)>, [Acc; 4])> = (0..nchunks)
                .into_par_iter()
                .map(|c| {
                    let mut rng = rng_from(mix(&[seed, c]));
                    let mut fails = Vec::new();
                    let mut acc = [Acc::new(); 4];
                    let mut nn = 0;
                    for _ in 0..ntr / nchunks {
                        let id = fresh_ids(&mut rng, 1, 0)[0];
                        let mut sk = make_usk(kind, m);
                        sk.sketch(id);
                        let vals: Vec<f64> = sk.bits().iter().map(|b| f64::from_bits(*b)).collect();
                        nn += 1;
                        match int_parts(&vals) {
                            Ok(parts) => {
                                let f0 = vals[0] - parts[0] as f64;
                                acc[0].push(f0); // mean 1/2
                                acc[1].push((f0 - 0.5) * (f0 - 0.5)); // variance 1/12
                                if m >= 2 {
                                    let f1 = vals[1] - parts[1] as f64;
                                    acc[2].push((f0 - 0.5) * (f1 - 0.5)); // independence of fractional parts
                                    acc[3].push((f0 - 0.5) * (parts[0] as f64 - (m as f64 - 1.) / 2.) / m as f64); // fraction vs integer part
                                }
                            }
                            Err((k, w)) => {
                                if fails.len() < 3 {
                                    fails.push((k, w, id));
                                }
                            }
                        }
                    }
                    (nn, fails, acc)
                })
                .collect();
            let mut acc = [Acc::new(); 4];
            let mut nfail_round = 0u64;
            for (nn, fails, a) in res {
                rep.evaluations += nn;
                for i in 0..4 {
                    acc[i].merge(&a[i]);
                }
                for (k, w, id) in fails {
                    if k == "C03/f32-roundup" {
                        nfail_round += 1;
                    }
                    rep.violation(&k, &cell, format!("{} m={} item {:#x}: {}", label, m, id, w), json!({"kind": kind.name(), "m": m, "item": id}));
                }
            }
            rep.count(&format!("single_item_sketches.{}", label), ntr / nchunks * nchunks);
            if nfail_round > 0 {
                rep.count("f32_roundup_sketches_reported", nfail_round);
            }
            rep.distinct.insert(mix(&[fnv64(cell.as_bytes())]));
            // moment tests (z on the pooled run; thresholds 5.5 one-shot = p ~ 4e-8 per test)
            let tests = [("frac_mean", 0.5, 0), ("frac_var", 1. / 12., 1), ("frac0_frac1_cov", 0., 2), ("frac_int_cov", 0., 3)];
            let mut zs = Vec::new();
            for (name, theta, i) in tests {
                if acc[i].n < 1000 || acc[i].se() == 0. {
                    continue;
                }
                let z = (acc[i].mean - theta) / acc[i].se();
                zs.push(json!({"stat": name, "z": (z * 100.).round() / 100., "n": acc[i].n}));
                if z.abs() >= 5.5 {
                    rep.violation("C03/single-item-fractional-law", &cell, format!("{} m={}: {} = {:.6} vs {:.6} (z={:.1}, n={})", label, m, name, acc[i].mean, theta, z, acc[i].n), json!({"kind": kind.name(), "m": m}));
                }
            }
            rep.cells.push(json!({"cell": cell, "sketches": ntr, "moment_tests": zs}));
        }
        // uniformity of the permutation
        for m in [2usize, 3, 4] {
            let cell = format!("E/orders/{}/m={}", label, m);
            if !rep.want(&cell) {
                continue;
            }
            let nf: usize = (1..=m).product();
            let seed = subseed(rep.seed, &cell, &[]);
            chi2_staged(rep, &cell, "C03/single-item-permutation-not-uniform", seed, rep.tier.pick(120_000, 1_200_000), json!({"kind": kind.name(), "m": m}), |s, n| {
                let counts = (0..64u64)
                    .into_par_iter()
                    .map(|c| {
                        let mut rng = rng_from(mix(&[s, c]));
                        let mut cnt = vec![0u64; nf];
                        for _ in 0..n / 64 {
                            let id = fresh_ids(&mut rng, 1, 0)[0];
                            let mut sk = make_usk(kind, m);
                            sk.sketch(id);
                            let vals: Vec<f64> = sk.bits().iter().map(|b| f64::from_bits(*b)).collect();
                            if let Ok(parts) = int_parts(&vals) {
                                cnt[perm_index(&parts)] += 1;
                            }
                        }
                        cnt
                    })
                    .reduce(|| vec![0u64; nf], |mut a, b| {
                        for i in 0..nf {
                            a[i] += b[i];
                        }
                        a
                    });
                let tot: u64 = counts.iter().sum();
                (counts, vec![tot as f64 / nf as f64; nf], (nf - 1) as f64, 1.)
            });
        }
        for m in [8usize, 32] {
            let cell = format!("E/table/{}/m={}", label, m);
            if !rep.want(&cell) {
                continue;
            }
            let seed = subseed(rep.seed, &cell, &[]);
            chi2_staged(rep, &cell, "C03/single-item-permutation-not-uniform", seed, rep.tier.pick(60_000, 600_000), json!({"kind": kind.name(), "m": m}), |s, n| {
                let counts = (0..64u64)
                    .into_par_iter()
                    .map(|c| {
                        let mut rng = rng_from(mix(&[s, c]));
                        let mut cnt = vec![0u64; m * m];
                        for _ in 0..n / 64 {
                            let id = fresh_ids(&mut rng, 1, 0)[0];
                            let mut sk = make_usk(kind, m);
                            sk.sketch(id);
                            let vals: Vec<f64> = sk.bits().iter().map(|b| f64::from_bits(*b)).collect();
                            if let Ok(parts) = int_parts(&vals) {
                                for (p, part) in parts.iter().enumerate() {
                                    cnt[p * m + part] += 1;
                                }
                            }
                        }
                        cnt
                    })
                    .reduce(|| vec![0u64; m * m], |mut a, b| {
                        for i in 0..a.len() {
                            a[i] += b[i];
                        }
                        a
                    });
                let tot: u64 = counts.iter().sum();
                (counts, vec![tot as f64 / (m * m) as f64; m * m], ((m - 1) * (m - 1)) as f64, (m - 1) as f64 / m as f64)
            });
        }
    }
    collect_ticks(rep);
    rep.assumptions.push("identifiers whose 32-bit hashes collide (SuperMinHash2<u32> with XxHash32) are regenerated by the harness: the property is stated for distinct items".into());
}
