//! statistics: Welford accumulators, parallel deterministic trial runner, staged tests, chi-square, KS

use crate::common::*;
use rayon::prelude::*;
use serde_json::{json, Value};

#[derive(Clone, Copy, Debug, Default)]
pub struct Acc {
    pub n: u64,
    pub mean: f64,
    pub m2: f64,
    /// number of trials with value != 0 and with value != 1 (event counts for the validity guard)
    pub n_not0: u64,
    pub n_not1: u64,
    pub min: f64,
    pub max: f64,
}

impl Acc {
    pub fn new() -> Self {
        Acc { n: 0, mean: 0., m2: 0., n_not0: 0, n_not1: 0, min: f64::INFINITY, max: f64::NEG_INFINITY }
    }
    pub fn push(&mut self, x: f64) {
        self.n += 1;
        let d = x - self.mean;
        self.mean += d / self.n as f64;
        self.m2 += d * (x - self.mean);
        if x != 0. {
            self.n_not0 += 1;
        }
        if x != 1. {
            self.n_not1 += 1;
        }
        if x < self.min {
            self.min = x;
        }
        if x > self.max {
            self.max = x;
        }
    }
    pub fn merge(&mut self, o: &Acc) {
        if o.n == 0 {
            return;
        }
        if self.n == 0 {
            *self = *o;
            return;
        }
        let n = self.n + o.n;
        let d = o.mean - self.mean;
        let mean = self.mean + d * o.n as f64 / n as f64;
        let m2 = self.m2 + o.m2 + d * d * (self.n as f64) * (o.n as f64) / n as f64;
        self.n = n;
        self.mean = mean;
        self.m2 = m2;
        self.n_not0 += o.n_not0;
        self.n_not1 += o.n_not1;
        self.min = self.min.min(o.min);
        self.max = self.max.max(o.max);
    }
    pub fn var(&self) -> f64 {
        if self.n < 2 {
            0.
        } else {
            self.m2 / (self.n - 1) as f64
        }
    }
    pub fn se(&self) -> f64 {
        (self.var() / self.n as f64).sqrt()
    }
}

pub const CHUNK: u64 = 64;

/// panics of the code under test caught inside trials since the last record_cell: (count, first messages)
pub static TRIAL_PANICS: std::sync::Mutex<(u64, Vec<String>)> = std::sync::Mutex::new((0, Vec::new()));

/// Runs `n` independent trials in parallel. Trial t of chunk c uses a generator derived from (seed, c) only,
/// so the result does not depend on the thread schedule. `f` fills `out` (length nstat) for one trial.
pub fn run_trials<F>(seed: u64, n: u64, nstat: usize, f: F) -> Vec<Acc>
where
    F: Fn(&mut Rng, &mut [f64]) + Sync,
{
    // chunk size depends on n only (deterministic); small runs use small chunks so that all cores work
    let chunk = (n / 128).clamp(1, CHUNK);
    let nchunks = n.div_ceil(chunk);
    (0..nchunks)
        .into_par_iter()
        .map(|c| {
            let mut rng = rng_from(mix(&[seed, c]));
            let mut accs = vec![Acc::new(); nstat];
            let mut out = vec![0f64; nstat];
            let lo = c * chunk;
            let hi = ((c + 1) * chunk).min(n);
            for _ in lo..hi {
                // a panic of the code under test inside a trial is recorded (and reported by record_cell), not propagated
                let r = std::panic::catch_unwind(std::panic::AssertUnwindSafe(|| f(&mut rng, &mut out)));
                match r {
                    Ok(()) => {
                        for i in 0..nstat {
                            accs[i].push(out[i]);
                        }
                    }
                    Err(e) => {
                        let msg = if let Some(s) = e.downcast_ref::<&str>() {
                            s.to_string()
                        } else if let Some(s) = e.downcast_ref::<String>() {
                            s.clone()
                        } else {
                            "panic".to_string()
                        };
                        let mut p = TRIAL_PANICS.lock().unwrap();
                        p.0 += 1;
                        if p.1.len() < 3 {
                            p.1.push(msg);
                        }
                    }
                }
            }
            accs
        })
        .reduce(
            || vec![Acc::new(); nstat],
            |mut a, b| {
                for i in 0..nstat {
                    a[i].merge(&b[i]);
                }
                a
            },
        )
}

#[derive(Clone, Copy, Debug, PartialEq)]
pub enum Kind {
    /// E[X] == theta
    TwoSided,
    /// E[X] <= theta
    Upper,
    /// E[X] >= theta
    Lower,
    /// every trial must give exactly theta (degenerate target)
    Exact,
    /// recorded only
    Info,
}

#[derive(Clone, Debug)]
pub struct Target {
    pub name: String,
    pub theta: f64,
    pub kind: Kind,
}

impl Target {
    pub fn new(name: &str, theta: f64, kind: Kind) -> Self {
        Target { name: name.to_string(), theta, kind }
    }
}

#[derive(Clone, Debug, PartialEq)]
pub enum Verdict {
    Held,
    Violated,
    Inconclusive,
    TooFewEvents,
}

#[derive(Clone, Debug)]
pub struct StatResult {
    pub name: String,
    pub theta: f64,
    pub kind: Kind,
    pub verdict: Verdict,
    pub stages: Vec<(u64, f64, f64, f64)>, // (T, mean, se, z)
}

pub const Z1: f64 = 3.5;
pub const Z2: f64 = 5.5;
pub const MIN_EVENTS: u64 = 40;

fn zscore(a: &Acc, t: &Target) -> Option<f64> {
    // validity guard : enough non-degenerate events and non-zero variance
    let unit = a.min >= 0. && a.max <= 1.;
    if unit && (0. ..=1.).contains(&t.theta) {
        // values in [0,1]: P(X != 1) >= 1 - E[X] and P(X != 0) >= E[X] (Markov). If the target predicts >= 400 such
        // trials and fewer than MIN_EVENTS were seen, the absence of events is itself a decisive deviation
        // (probability < e^-200 under the target); it still has to be confirmed by a fresh stage.
        let n = a.n as f64;
        if a.n_not1 < MIN_EVENTS && n * (1. - t.theta) >= 400. {
            return Some(1e9);
        }
        if a.n_not0 < MIN_EVENTS && n * t.theta >= 400. {
            return Some(-1e9);
        }
    }
    let se = a.se();
    if !(se > 0.) {
        return None;
    }
    if unit && (a.n_not0 < MIN_EVENTS || a.n_not1 < MIN_EVENTS) {
        // nearly all trials sit on 0 (or on 1): the normal approximation of the mean is not trusted
        return None;
    }
    Some((a.mean - t.theta) / se)
}

fn trips(z: f64, kind: Kind, thr: f64) -> bool {
    match kind {
        Kind::TwoSided => z.abs() >= thr,
        Kind::Upper => z >= thr,
        Kind::Lower => z <= -thr,
        _ => false,
    }
}

/// staged test (DESIGN 4.2). `t1` = trials of stage 1, each further stage x10, up to `max_stages`.
/// Returns per-statistic results and the total number of trials run.
pub fn staged<F>(seed: u64, t1: u64, max_stages: usize, targets: &[Target], f: F) -> (Vec<StatResult>, u64)
where
    F: Fn(&mut Rng, &mut [f64]) + Sync,
{
    let ns = targets.len();
    let mut res: Vec<StatResult> = targets
        .iter()
        .map(|t| StatResult { name: t.name.clone(), theta: t.theta, kind: t.kind, verdict: Verdict::Held, stages: vec![] })
        .collect();
    let mut total = 0u64;
    let mut suspects: Vec<usize> = (0..ns).collect();
    let mut first_sign: Vec<f64> = vec![0.; ns];
    let mut t = t1;
    for stage in 1..=max_stages {
        let accs = run_trials(mix(&[seed, stage as u64]), t, ns, &f);
        total += t;
        let mut next = Vec::new();
        for &i in &suspects {
            let a = &accs[i];
            let tg = &targets[i];
            match tg.kind {
                Kind::Info => {
                    res[i].stages.push((a.n, a.mean, a.se(), 0.));
                    continue;
                }
                Kind::Exact => {
                    res[i].stages.push((a.n, a.mean, a.se(), 0.));
                    if a.min != tg.theta || a.max != tg.theta {
                        res[i].verdict = Verdict::Violated;
                    }
                    continue;
                }
                _ => {}
            }
            match zscore(a, tg) {
                None => {
                    res[i].stages.push((a.n, a.mean, a.se(), f64::NAN));
                    // zero variance exactly on target (or on the allowed side of a one-sided bound) is fine
                    let on_side = match tg.kind {
                        Kind::Upper => a.mean <= tg.theta,
                        Kind::Lower => a.mean >= tg.theta,
                        _ => false,
                    };
                    if a.se() == 0. && ((a.mean - tg.theta).abs() <= 1e-9 || on_side) {
                        res[i].verdict = Verdict::Held;
                    } else if on_side && first_sign[i] == 0. {
                        // too few events for a z-score but the observed mean is on the allowed side of the bound
                        res[i].verdict = Verdict::Held;
                    } else {
                        res[i].verdict = Verdict::TooFewEvents;
                        next.push(i);
                    }
                }
                Some(z) => {
                    res[i].stages.push((a.n, a.mean, a.se(), z));
                    if first_sign[i] == 0. {
                        // not yet suspected (stage 1, or earlier stages lacked events)
                        if trips(z, tg.kind, Z1) {
                            first_sign[i] = z.signum();
                            res[i].verdict = Verdict::Inconclusive;
                            next.push(i);
                        } else {
                            res[i].verdict = Verdict::Held;
                        }
                    } else if trips(z, tg.kind, Z2) && z.signum() == first_sign[i] {
                        res[i].verdict = Verdict::Violated;
                    } else if !trips(z, tg.kind, Z1) {
                        res[i].verdict = Verdict::Held;
                    } else {
                        res[i].verdict = Verdict::Inconclusive;
                        next.push(i);
                    }
                }
            }
        }
        suspects = next;
        if suspects.is_empty() {
            break;
        }
        t *= 10;
    }
    (res, total)
}

pub fn results_json(rs: &[StatResult]) -> Value {
    Value::Array(
        rs.iter()
            .map(|r| {
                let last = r.stages.last().cloned().unwrap_or((0, 0., 0., 0.));
                json!({
                    "stat": r.name, "target": r.theta, "kind": format!("{:?}", r.kind), "verdict": format!("{:?}", r.verdict),
                    "stages": r.stages.len(), "trials_last": last.0, "mean": last.1, "se": last.2,
                    "z": if last.3.is_finite() { json!((last.3 * 100.).round() / 100.) } else { json!(null) },
                    "resolution_7se": last.2 * 7.0,
                })
            })
            .collect(),
    )
}

/// record the result of a staged cell into the report; returns true if all held
pub fn record_cell(rep: &mut Report, key_prefix: &str, cell: &str, rs: &[StatResult], trials: u64, case: Value) -> bool {
    let mut ok = true;
    {
        let mut p = TRIAL_PANICS.lock().unwrap();
        if p.0 > 0 {
            ok = false;
            rep.violation(&format!("{}/panic", key_prefix), cell, format!("the code under test panicked in {} trial(s) of this cell: {}", p.0, p.1.join(" | ")), case.clone());
            *p = (0, Vec::new());
        }
    }
    for r in rs {
        match r.verdict {
            Verdict::Held => {}
            Verdict::Violated => {
                ok = false;
                let last = r.stages.last().cloned().unwrap_or((0, 0., 0., 0.));
                rep.violation(
                    &format!("{}/{}", key_prefix, r.name),
                    cell,
                    format!(
                        "statistic {} : observed mean {:.6e} (se {:.2e}, z {:.1}, T {}) vs target {:.6e} ({:?}) confirmed over {} stages",
                        r.name, last.1, last.2, last.3, last.0, r.theta, r.kind, r.stages.len()
                    ),
                    json!({"cell": cell, "case": case, "stages": format!("{:?}", r.stages)}),
                );
            }
            Verdict::Inconclusive => {
                rep.inconclusive.push(format!("cell={} stat={} stages={:?} (between thresholds after the last stage)", cell, r.name, r.stages));
            }
            Verdict::TooFewEvents => {
                rep.inconclusive.push(format!("cell={} stat={} too few events for a verdict: stages={:?}", cell, r.name, r.stages));
            }
        }
    }
    rep.evaluations += trials;
    rep.cells.push(json!({"cell": cell, "trials": trials, "stats": results_json(rs)}));
    ok
}

// ---------------------------------------------------------------------------------------
// chi-square and KS

/// Wilson-Hilferty normal score of a chi-square statistic with k degrees of freedom
pub fn chi2_z(x: f64, k: f64) -> f64 {
    let t = (x / k).powf(1. / 3.);
    (t - (1. - 2. / (9. * k))) / (2. / (9. * k)).sqrt()
}

/// chi-square statistic of observed counts against expected counts (same total)
pub fn chi2(obs: &[u64], exp: &[f64]) -> f64 {
    obs.iter().zip(exp.iter()).map(|(o, e)| (*o as f64 - e) * (*o as f64 - e) / e).sum()
}

/// sqrt(N) * D for sorted samples against a cdf
pub fn ks_sqrtn_d<F: Fn(f64) -> f64>(sorted: &[f64], cdf: F) -> f64 {
    let n = sorted.len() as f64;
    let mut d: f64 = 0.;
    for (i, x) in sorted.iter().enumerate() {
        let fx = cdf(*x);
        let lo = i as f64 / n;
        let hi = (i + 1) as f64 / n;
        d = d.max((fx - lo).abs()).max((hi - fx).abs());
    }
    d * n.sqrt()
}

/// staged chi-square monitor: `f(stage_seed, n)` returns (observed counts, expected counts, degrees of freedom, scale factor applied to X2).
/// Stage 1 passes when z < 3.5; otherwise fresh stages with 8x samples: violation at z >= 5.5, held at z < 3.5, else inconclusive after stage 3.
pub fn chi2_staged<F>(rep: &mut Report, cell: &str, key: &str, seed: u64, n1: u64, case: Value, f: F)
where
    F: Fn(u64, u64) -> (Vec<u64>, Vec<f64>, f64, f64),
{
    let mut n = n1;
    for stage in 1..=3u64 {
        let (obs, exp, df, scale) = f(mix(&[seed, stage]), n);
        let tot: u64 = obs.iter().sum();
        rep.evaluations += tot;
        let x = chi2(&obs, &exp) * scale;
        let z = chi2_z(x, df);
        let min_exp = exp.iter().cloned().fold(f64::INFINITY, f64::min);
        rep.cells.push(json!({"cell": cell, "stage": stage, "observations": tot, "chi2": x, "df": df, "z": (z * 100.).round() / 100., "min_expected_count": min_exp, "categories_seen": obs.iter().filter(|&&c| c > 0).count()}));
        if min_exp < 20. {
            rep.inconclusive.push(format!("cell={} expected count {:.1} too small for a chi-square verdict", cell, min_exp));
            return;
        }
        if stage == 1 && z < Z1 {
            return;
        }
        if stage > 1 && z >= Z2 {
            rep.violation(key, cell, format!("chi-square({})={:.1} (z={:.1}) over {} observations, confirmed at stage {}", df, x, z, tot, stage), case);
            return;
        }
        if stage > 1 && z < Z1 {
            return;
        }
        n *= 8;
    }
    rep.inconclusive.push(format!("cell={} chi-square stayed between thresholds", cell));
}
