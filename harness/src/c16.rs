//! C16 — truncated exponential sampler has the right law on [0,1)
use crate::common::*;
use crate::stat::*;
use probminhash::exp01::ExpRestricted01;
use rand::distr::Distribution;
use rand::RngCore;
use rayon::prelude::*;
use serde_json::json;

/// generator that first replays a script of words, then falls back to a PRNG; counts words consumed
struct Scripted {
    script: Vec<u64>,
    pos: usize,
    fallback: Rng,
    consumed: u64,
}
impl RngCore for Scripted {
    fn next_u32(&mut self) -> u32 {
        (self.next_u64() >> 32) as u32
    }
    fn next_u64(&mut self) -> u64 {
        self.consumed += 1;
        if self.pos < self.script.len() {
            self.pos += 1;
            self.script[self.pos - 1]
        } else {
            self.fallback.next_u64()
        }
    }
    fn fill_bytes(&mut self, dst: &mut [u8]) {
        for chunk in dst.chunks_mut(8) {
            let w = self.next_u64().to_le_bytes();
            chunk.copy_from_slice(&w[..chunk.len()]);
        }
    }
}

fn cdf(lambda: f64, x: f64) -> f64 {
    // (1 - exp(-lambda x)) / (1 - exp(-lambda)), with exp_m1 for small lambda
    if x <= 0. {
        return 0.;
    }
    if x >= 1. {
        return 1.;
    }
    (-(lambda * x)).exp_m1() / (-lambda).exp_m1()
}

/// the fixed rates plus seeded ones, log-uniform over [1e-4, 40] (a rate-dependent branch between two grid values would otherwise never run)
pub fn lambdas_seeded(seed: u64, n: usize) -> Vec<(String, f64)> {
    let mut v = lambdas();
    let mut r = rng_from(mix(&[seed, 0xC16]));
    for _ in 0..n {
        use rand::Rng as _;
        let l = 10f64.powf(r.random_range(-4.0..1.6));
        let l = f64::from_bits(l.to_bits() & !0xffff_ffff);
        v.push((format!("{:e}", l), l));
    }
    v
}

pub fn lambdas() -> Vec<(String, f64)> {
    let mut v = vec![("1e-9".to_string(), 1e-9), ("1e-6".to_string(), 1e-6), ("1e-3".to_string(), 1e-3)];
    for m in [2u64, 3, 10, 100, 10_000, 1_000_000] {
        v.push((format!("ln(m/(m-1)),m={}", m), ((m as f64) / (m as f64 - 1.)).ln()));
    }
    for l in [0.5, 1., 2., 5., 10., 30.] {
        v.push((format!("{}", l), l));
    }
    v
}

pub fn run(rep: &mut Report) {
    rep.rule = "per rate lambda (1e-9 .. 30, including ln(m/(m-1)) for the m used by ProbMinHash3, plus 8 / 60 seeded rates log-uniform over [1e-4, 40]): N samples from the real sampler driven by Xoshiro256++; every sample range-checked; sqrt(N)*KS distance and a 64-bin chi-square on F(x); first-try acceptance fraction against 1/c1 = lambda/(e^lambda-1) measured by counting generator words. Scripted generators replay extreme words (0, MAX, single bits, top-of-interval) before falling back. distinct_nontrivial counts distinct sample values observed in (0,1) (bit patterns), measured on a subsample".into();
    let n: u64 = rep.tier.pick(1_000_000, 40_000_000);
    let nchunks = 256u64;
    let nseeded = rep.tier.pick(8, 60);
    for (li, (name, lambda)) in lambdas_seeded(rep.seed, nseeded).into_iter().enumerate() {
        let cell = format!("lambda={}", name);
        if !rep.want(&cell) {
            continue;
        }
        let law = ExpRestricted01::new(lambda);
        let mut verdict_done = false;
        let mut stage = 0;
        let mut nn = n;
        while !verdict_done {
            stage += 1;
            let seed = subseed(rep.seed, "C16", &[li as u64, stage]);
            // each chunk: sorted samples (subsampled for KS), histogram for chi-square, range violations, first-try count
            let per = nn / nchunks;
            let parts: Vec<(Vec<f64>, Vec<u64>, u64, u64, u64, Option<f64>)> = (0..nchunks)
                .into_par_iter()
                .map(|c| {
                    let mut rng = Scripted { script: vec![], pos: 0, fallback: rng_from(mix(&[seed, c])), consumed: 0 };
                    let mut hist = vec![0u64; 64];
                    let keep_every = (per / 20_000).max(1);
                    let mut kept = Vec::with_capacity((per / keep_every) as usize + 1);
                    let mut first_try = 0u64;
                    let mut bad = None;
                    let mut nbad = 0u64;
                    for i in 0..per {
                        let before = rng.consumed;
                        let x = law.sample(&mut rng);
                        if rng.consumed - before == 1 {
                            first_try += 1;
                        }
                        if !(0. ..1.).contains(&x) {
                            nbad += 1;
                            bad = Some(x);
                            continue;
                        }
                        let u = cdf(lambda, x);
                        let b = ((u * 64.) as usize).min(63);
                        hist[b] += 1;
                        if i % keep_every == 0 {
                            kept.push(x);
                        }
                    }
                    (kept, hist, first_try, nbad, per, bad)
                })
                .collect();
            let mut all: Vec<f64> = Vec::new();
            let mut hist = vec![0u64; 64];
            let mut first_try = 0u64;
            let mut nbad = 0u64;
            let mut tot = 0u64;
            let mut badx = None;
            for (k, h, f, b, p, bx) in parts {
                all.extend(k);
                for i in 0..64 {
                    hist[i] += h[i];
                }
                first_try += f;
                nbad += b;
                tot += p;
                if bx.is_some() {
                    badx = bx;
                }
            }
            rep.evaluations += tot;
            if stage == 1 {
                for x in all.iter().take(50_000) {
                    rep.distinct.insert(x.to_bits());
                }
            }
            if nbad > 0 {
                rep.violation("C16/range", &cell, format!("{} of {} samples outside [0,1), e.g. {:?}", nbad, tot, badx), json!({"lambda": lambda, "example": format!("{:?}", badx)}));
                break;
            }
            all.sort_by(|a, b| a.partial_cmp(b).unwrap());
            let ks = ks_sqrtn_d(&all, |x| cdf(lambda, x));
            let ngood = tot - nbad;
            let exp: Vec<f64> = vec![ngood as f64 / 64.; 64];
            let c2 = chi2(&hist, &exp);
            let c2z = chi2_z(c2, 63.);
            // acceptance mix: P(first try) = 1/c1 = lambda / expm1(lambda)
            let p1 = lambda / lambda.exp_m1();
            let p1hat = first_try as f64 / tot as f64;
            let se = (p1 * (1. - p1) / tot as f64).sqrt();
            let z1 = if se > 0. && (tot as f64 * (1. - p1)) >= 40. { (p1hat - p1) / se } else { 0. };
            let suspicious = ks >= 1.95 || c2z.abs() >= 3.5 || z1.abs() >= 3.5;
            let confirmed = ks >= 3.2 || c2z >= 5.5 || z1.abs() >= 5.5;
            rep.cells.push(json!({"cell": cell, "stage": stage, "samples": tot, "ks_sqrtN_D": ks, "ks_points": all.len(), "chi2_63": c2, "chi2_z": c2z, "first_try_fraction": p1hat, "first_try_expected": p1, "first_try_z": z1}));
            if stage == 1 {
                rep.sample(json!({"lambda": lambda, "first_samples": &all[..3.min(all.len())], "median_sample": all[all.len() / 2]}));
            }
            if stage == 1 && !suspicious {
                verdict_done = true;
            } else if stage > 1 && confirmed {
                rep.violation("C16/law", &cell, format!("lambda={} : sqrt(N)D={:.2} chi2z={:.1} first-try z={:.1} at N={} (second stage)", lambda, ks, c2z, z1, tot), json!({"lambda": lambda}));
                verdict_done = true;
            } else if stage > 1 && !suspicious {
                verdict_done = true;
            } else if stage >= 3 {
                rep.inconclusive.push(format!("cell={} ks={:.2} chi2z={:.1} z1={:.1}", cell, ks, c2z, z1));
                verdict_done = true;
            } else {
                nn *= 4;
            }
        }
    }
    // scripted extremes
    if rep.want("scripted") {
        let mut words: Vec<u64> = vec![0, u64::MAX, u64::MAX - 1, 1, 1 << 63, (1 << 63) - 1, u64::MAX << 11, (u64::MAX << 11) - 1, 0x7ff, 0x800, 0xfffffffffffff800];
        for i in 0..64 {
            words.push(1u64 << i);
            words.push(!(1u64 << i));
        }
        let mut nscr = 0u64;
        let seed = subseed(rep.seed, "C16/scripted", &[]);
        let mut idx = 0u64;
        for (name, lambda) in lambdas() {
            let law = ExpRestricted01::new(lambda);
            for a in 0..words.len() {
                for b in [0usize, 1, 3, 17, 40, 77, 120] {
                    for c in [0usize, 2, 5] {
                        idx += 1;
                        let script = vec![words[a], words[b % words.len()], words[c], words[(a + b) % words.len()], words[(a + c) % words.len()]];
                        let mut rng = Scripted { script: script.clone(), pos: 0, fallback: rng_from(mix(&[seed, idx])), consumed: 0 };
                        for _ in 0..3 {
                            let x = law.sample(&mut rng);
                            nscr += 1;
                            if !(0. ..1.).contains(&x) {
                                rep.violation("C16/range", "scripted", format!("lambda={} scripted generator words {:x?} gave sample {:?}", name, script, x), json!({"lambda": lambda, "script": script}));
                            }
                            if rng.consumed > 10_000 {
                                rep.violation("C16/termination", "scripted", format!("lambda={} : more than 10000 words consumed for one sample", name), json!({"lambda": lambda, "script": script}));
                            }
                        }
                        rep.distinct.insert(mix(&[lambda.to_bits(), a as u64, b as u64, c as u64]));
                    }
                }
            }
        }
        // targeted boundary of the first-try acceptance c1*u < 1: generator words around u = 1/c1 (u = k 2^-52, word = k << 12)
        let mut rates: Vec<f64> = lambdas().into_iter().map(|x| x.1).collect();
        for mm in 2..=300u64 {
            rates.push((mm as f64 / (mm as f64 - 1.)).ln());
        }
        let mut nb = 0u64;
        for lambda in rates {
            let law = ExpRestricted01::new(lambda);
            let c1 = lambda.exp_m1() / lambda;
            let k0 = ((1. / c1) * (1u64 << 52) as f64) as u64;
            for dk in 0..96u64 {
                let k = (k0 + dk).saturating_sub(48).min((1u64 << 52) - 1);
                let mut rng = Scripted { script: vec![k << 12, (k << 12) | 0xfff], pos: 0, fallback: rng_from(mix(&[seed, k, lambda.to_bits()])), consumed: 0 };
                for _ in 0..2 {
                    let x = law.sample(&mut rng);
                    nb += 1;
                    if !(0. ..1.).contains(&x) {
                        rep.violation("C16/range", "scripted", format!("lambda={:e}: a generator word {:#x} (u = {} * 2^-52, next to 1/c1) gives the sample {:?}, outside [0,1)", lambda, k << 12, k, x), json!({"lambda": lambda, "word": k << 12}));
                    }
                }
                rep.distinct.insert(mix(&[lambda.to_bits(), k, 7]));
            }
        }
        nscr += nb;
        rep.count("scripted.first_try_boundary_states", nb);
        rep.evaluations += nscr;
        rep.count("scripted.samples", nscr);
        rep.sample(json!({"scripted_words_hex": format!("{:x?}", &words[..6]), "note": "replayed as the first generator outputs, then PRNG"}));
    }
    rep.assumptions.push("Xoshiro256++ (the generator the crate itself uses) is taken as a uniform source".into());
}
