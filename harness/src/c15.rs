//! C15 — the max tracker reports the true maximum of per-slot minima (model-based monitor)
use crate::common::*;
use probminhash::verif::MaxTrackerProbe;
use rand::Rng as _;
use rand::RngCore;
use rayon::prelude::*;
use serde_json::{json, Value};

/// operation of a history
#[derive(Clone, Copy, Debug)]
enum Op<V> {
    Update(usize, V),
    Reset,
}

trait Val: Copy + PartialOrd + std::fmt::Debug + Send + Sync + 'static {
    fn tmax() -> Self;
    fn to_json(self) -> Value;
    /// neighbours just below / above (same value if none)
    fn below(self) -> Self;
    fn above(self) -> Self;
}
impl Val for f64 {
    fn tmax() -> f64 {
        f64::MAX
    }
    fn to_json(self) -> Value {
        json!(self)
    }
    fn below(self) -> f64 {
        if self == f64::MAX {
            f64::from_bits(self.to_bits() - 1)
        } else if self > 0. {
            f64::from_bits(self.to_bits() - 1)
        } else {
            self - 1.
        }
    }
    fn above(self) -> f64 {
        if self == f64::MAX {
            self
        } else if self > 0. {
            f64::from_bits(self.to_bits() + 1)
        } else {
            self + 1.
        }
    }
}
impl Val for u32 {
    fn tmax() -> u32 {
        u32::MAX
    }
    fn to_json(self) -> Value {
        json!(self)
    }
    fn below(self) -> u32 {
        self.saturating_sub(1)
    }
    fn above(self) -> u32 {
        self.saturating_add(1)
    }
}
impl Val for u64 {
    fn tmax() -> u64 {
        u64::MAX
    }
    fn to_json(self) -> Value {
        json!(self)
    }
    fn below(self) -> u64 {
        self.saturating_sub(1)
    }
    fn above(self) -> u64 {
        self.saturating_add(1)
    }
}

/// runs a history against the real tracker and the shadow model; returns the first mismatch
fn check_history<V>(m: usize, ops: &[Op<V>]) -> Result<(), String>
where
    V: Val + probminhash_maxvalue::MaxV,
{
    V::run(m, ops)
}

// The MaxValue trait of the crate is not nameable from outside (private module), so the generic code is instantiated per type
mod probminhash_maxvalue {
    use super::*;
    pub trait MaxV: Sized {
        fn run(m: usize, ops: &[Op<Self>]) -> Result<(), String>;
    }
    macro_rules! imp {
        ($t:ty) => {
            impl MaxV for $t {
                fn run(m: usize, ops: &[Op<$t>]) -> Result<(), String> {
                    let mut real = MaxTrackerProbe::<$t>::new(m);
                    let mut model: Vec<$t> = vec![<$t as Val>::tmax(); m];
                    if MaxTrackerProbe::<$t>::type_max() != <$t as Val>::tmax() {
                        return Err("type maximum differs".into());
                    }
                    for (step, op) in std::iter::once(&Op::Reset).chain(ops.iter()).enumerate() {
                        match *op {
                            Op::Update(k, v) => {
                                real.update(k, v);
                                if v < model[k] {
                                    model[k] = v;
                                }
                            }
                            Op::Reset => {
                                if step > 0 {
                                    real.reset();
                                    model.iter_mut().for_each(|x| *x = <$t as Val>::tmax());
                                }
                            }
                        }
                        // observe
                        let mut mx = model[0];
                        for k in 0..m {
                            let r = real.get_value(k);
                            if r != model[k] {
                                return Err(format!("after step {} ({:?}): slot {} holds {:?}, model {:?}", step, op, k, r, model[k]));
                            }
                            if model[k] > mx {
                                mx = model[k];
                            }
                        }
                        let rm = real.get_max_value();
                        if rm != mx {
                            return Err(format!("after step {} ({:?}): reported max {:?}, true max of slot minima {:?}", step, op, rm, mx));
                        }
                        for v in [mx.below(), mx, mx.above()] {
                            let want = v < mx;
                            if real.is_update_possible(v) != want {
                                return Err(format!("after step {} ({:?}): is_update_possible({:?}) = {}, max is {:?}", step, op, v, !want, mx));
                            }
                        }
                    }
                    Ok(())
                }
            }
        };
    }
    imp!(f64);
    imp!(u32);
    imp!(u64);
}

fn ops_json<V: Val>(ops: &[Op<V>]) -> Value {
    Value::Array(
        ops.iter()
            .map(|o| match o {
                Op::Update(k, v) => json!(["update", k, v.to_json()]),
                Op::Reset => json!(["reset"]),
            })
            .collect(),
    )
}

fn gen_ops_f64(rng: &mut Rng, m: usize, len: usize, mode: u32) -> Vec<Op<f64>> {
    let alphabet = [0.5f64, 1., 1.5, 2., 7.25];
    (0..len)
        .map(|_| {
            if rng.random_range(0..100) < 2 {
                return Op::Reset;
            }
            let k = match mode % 3 {
                0 => rng.random_range(0..m),
                1 => {
                    // concentrate on few slots / siblings
                    let base = rng.random_range(0..m);
                    (base ^ (rng.random_range(0..2usize))).min(m - 1)
                }
                _ => (rng.random_range(0..m.min(4))) % m,
            };
            let v = match (mode / 3) % 3 {
                0 => alphabet[rng.random_range(0..(3 + (mode as usize % 3)).min(5))],
                1 => rng.random::<f64>() * 10.,
                _ => {
                    // decreasing-ish values so that most updates improve
                    1e6 / (1. + rng.random_range(0..1000) as f64)
                }
            };
            Op::Update(k, v)
        })
        .collect()
}

fn gen_ops_int<V: Val + From<u32>>(rng: &mut Rng, m: usize, len: usize, mode: u32) -> Vec<Op<V>> {
    (0..len)
        .map(|_| {
            if rng.random_range(0..100) < 2 {
                return Op::Reset;
            }
            let k = if mode % 2 == 0 { rng.random_range(0..m) } else { (rng.random_range(0..m.min(5))) % m };
            let v: u32 = if (mode / 2) % 2 == 0 { rng.random_range(0..4u32) } else { rng.next_u32() >> rng.random_range(0..31) };
            Op::Update(k, V::from(v))
        })
        .collect()
}

pub fn run(rep: &mut Report) {
    quiet_panics();
    rep.rule = "random operation histories (update/reset) on every m in 1..=130 and {255,256,257,1000,4097}, values from a 3-5 symbol alphabet (ties, repeats, non-improving updates) or a continuous range, V in {f64,u32,u64}; after EVERY operation all slots, the maximum and is_update_possible(just below / at / just above max) are compared with a Vec-of-minima shadow model. Exhaustive leg: every update sequence of length <= L over m in 1..=5 and values {1,2,3}. A case is a distinct (m, history) pair (digest of the operations); non-trivial when it has >= 2 updates".into();
    let mut ms: Vec<usize> = (1..=130).collect();
    ms.extend_from_slice(&[255, 256, 257, 1000, 4097]);
    let hist_per_m = rep.tier.pick(40u64, 1500u64);
    let len = rep.tier.pick(120usize, 300usize);
    // ---------------- random histories
    if rep.want("random") {
        let seed = subseed(rep.seed, "C15/random", &[]);
        let results: Vec<(u64, u64, Option<(String, Value)>, u64)> = ms
            .par_iter()
            .map(|&m| {
                let mut rng = rng_from(mix(&[seed, m as u64]));
                let mut nops = 0u64;
                let mut dig = 0u64;
                let mut bad = None;
                let mut nh = 0;
                for h in 0..hist_per_m {
                    let mode = (h % 18) as u32;
                    let l = if m > 300 { len * 4 } else { len };
                    let res = match h % 3 {
                        0 | 1 => {
                            let ops = gen_ops_f64(&mut rng, m, l, mode);
                            nops += ops.len() as u64;
                            dig ^= splitmix(fnv64(format!("{:?}{:?}", m, ops).as_bytes()));
                            catch(|| check_history::<f64>(m, &ops)).unwrap_or_else(|p| Err(format!("panic: {}", p))).map_err(|e| (e, json!({"m": m, "type": "f64", "ops": ops_json(&ops)})))
                        }
                        _ => {
                            if h % 2 == 0 {
                                let ops = gen_ops_int::<u32>(&mut rng, m, l, mode);
                                nops += ops.len() as u64;
                                dig ^= splitmix(fnv64(format!("{:?}{:?}", m, ops).as_bytes()));
                                catch(|| check_history::<u32>(m, &ops)).unwrap_or_else(|p| Err(format!("panic: {}", p))).map_err(|e| (e, json!({"m": m, "type": "u32", "ops": ops_json(&ops)})))
                            } else {
                                let ops = gen_ops_int::<u64>(&mut rng, m, l, mode);
                                nops += ops.len() as u64;
                                dig ^= splitmix(fnv64(format!("{:?}{:?}", m, ops).as_bytes()));
                                catch(|| check_history::<u64>(m, &ops)).unwrap_or_else(|p| Err(format!("panic: {}", p))).map_err(|e| (e, json!({"m": m, "type": "u64", "ops": ops_json(&ops)})))
                            }
                        }
                    };
                    nh += 1;
                    if let Err(e) = res {
                        if bad.is_none() {
                            bad = Some(e);
                        }
                    }
                }
                (nh, nops, bad, dig)
            })
            .collect();
        for (i, (nh, nops, bad, dig)) in results.into_iter().enumerate() {
            rep.evaluations += nh;
            rep.count("random.operations_checked", nops);
            // histories are drawn from independent streams; digests distinguish them
            for h in 0..nh {
                rep.distinct.insert(mix(&[dig, ms[i] as u64, h]));
            }
            if let Some((e, case)) = bad {
                rep.violation("C15/model-mismatch", "random", format!("m={} : {}", ms[i], e), case);
            }
        }
        let mut rng = rng_from(mix(&[seed, 7]));
        let ops = gen_ops_f64(&mut rng, 7, 10, 1);
        rep.sample(json!({"m": 7, "type": "f64", "ops": ops_json(&ops)}));
    }
    // ---------------- exhaustive leg
    if rep.want("exhaustive") {
        let maxlen = rep.tier.pick(5usize, 6usize);
        let mut total = 0u64;
        for m in 1..=5usize {
            let base = m * 3; // (slot, value) pairs
            for l in 1..=maxlen {
                let n = (base as u64).pow(l as u32);
                let bad: Option<(String, Value)> = (0..n)
                    .into_par_iter()
                    .find_map_first(|code| {
                        let mut c = code;
                        let mut ops = Vec::with_capacity(l);
                        for _ in 0..l {
                            let d = (c % base as u64) as usize;
                            c /= base as u64;
                            ops.push(Op::Update(d / 3, (d % 3 + 1) as u32));
                        }
                        match catch(|| check_history::<u32>(m, &ops)).unwrap_or_else(|p| Err(format!("panic: {}", p))) {
                            Ok(()) => None,
                            Err(e) => Some((e, json!({"m": m, "type": "u32", "ops": ops_json(&ops)}))),
                        }
                    });
                total += n;
                if let Some((e, case)) = bad {
                    rep.violation("C15/model-mismatch", "exhaustive", format!("m={} len={} : {}", m, l, e), case);
                }
            }
        }
        rep.evaluations += total;
        rep.count("exhaustive.sequences", total);
        rep.extra.insert("exhaustive_leg".into(), json!({"m": "1..=5", "values": [1, 2, 3], "max_len": maxlen, "sequences": total, "exhaustive": true}));
        // every enumerated sequence is distinct by construction; sequences with >= 2 updates are non-trivial
        rep.extra.insert("exhaustive_leg_distinct".into(), json!(total - (3 + 6 + 9 + 12 + 15)));
        rep.sample(json!({"m": 3, "type": "u32", "ops": [["update", 0, 2], ["update", 1, 2], ["update", 0, 1], ["update", 2, 3]]}));
    }
    rep.assumptions.push("the probe wrapper (src/verif.rs, feature verif_hooks) forwards to the crate-private MaxValueTracker without logic of its own".into());
}
