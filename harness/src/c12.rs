//! C12 — a sketch is a pure function of parameters, hasher and input (instances / threads / processes)
use crate::common::*;
use crate::gen::*;
use crate::sk::*;
use fnv::FnvHasher;
use probminhash::probminhasher::probordminhash2::ProbOrdMinHash2;
use rand::Rng as _;
use serde_json::{json, Value};
use std::collections::BTreeMap;
use std::sync::{Arc, Barrier};
use std::time::Instant;
use wyhash::WyHash;

/// the battery: (case name, digest of the bit pattern of the result). Everything is derived from `seed`;
/// each call constructs fresh sketcher instances.
/// number of independent sections of the battery (each derives its inputs from (seed, section) only, so sections can be
/// executed in any order and concurrently with other sections)
pub const NSECTIONS: usize = 7;

pub fn battery_section(seed: u64, size: usize, sec: usize) -> Vec<(String, u64)> {
    let mut out = Vec::new();
    let mut rng = rng_from(mix(&[seed, 0xC12, sec as u64]));
    let kinds = crate::c04::kinds();
    if sec == 0 {
        // ---- ProbMinHash variants, all entry points (HashMap with RandomState included)
        for (ci, v) in ALL_PV.iter().enumerate() {
            for rep in 0..size {
                let n = [1usize, 5, 40, 200][rep % 4];
                let m = [v.min_m().max(2), 16, 100, 512][(rep + ci) % 4];
                let ids = fresh_ids(&mut rng, n, 0);
                // real-valued weights, or small integer multiplicities (many items tied at the largest weight)
                let w: Vec<(u64, f64)> = if rep % 2 == 1 { ids.iter().map(|&d| (d, rng.random_range(1..4u32) as f64)).collect() } else { ids.iter().map(|&d| (d, 10f64.powf(rng.random_range(-3.0..3.0)))).collect() };
                let entries: Vec<Entry> = match v {
                    Pv::P2 => vec![Entry::Item, Entry::Wset, Entry::HashMapStd],
                    Pv::P3 => vec![Entry::Item, Entry::IdxMap, Entry::HashMapStd],
                    _ => vec![Entry::IdxMap, Entry::HashMapStd, Entry::Batches(3)],
                };
                for e in entries {
                    let hs = if *v != Pv::P3aSha && rep % 3 == 2 { Hs::NoHash } else { Hs::Fnv };
                    let (sig, reg) = pmh(*v, hs, m, &w, e, 0);
                    out.push((format!("{}/{:?}/{:?}/n={}/m={}/#{}", v.name(), hs, e, n, m, rep), mix(&[digest_u64s(&sig), digest_f64s(&reg)])));
                }
            }
        }
    }
    if sec == 1 {
        // ---- ProbMinHash3aSha over every key type with a byte identity (String, Vec<u8>, Vec<u16>, Vec<u32>, integers), after
        // disturbing the heap (the identity bytes must not depend on whatever the allocator hands out)
        {
            use indexmap::IndexMap;
            use probminhash::probminhasher::ProbMinHash3aSha;
            fn sha_sig<D: Clone + Eq + std::fmt::Debug + std::hash::Hash + probminhash::probminhasher::sig::Sig>(keys: Vec<D>, ph: D, m: usize) -> Vec<D> {
                let mut map: IndexMap<D, f64> = IndexMap::new();
                for (i, k) in keys.into_iter().enumerate() {
                    map.insert(k, 1. + (i % 7) as f64);
                }
                let mut s = ProbMinHash3aSha::<D>::new(m, ph);
                s.hash_weigthed_idxmap(&map);
                s.get_signature().clone()
            }
            // heap churn: blocks of many sizes filled with instance-dependent garbage, then freed
            let churn = |salt: u64| {
                let mut junk: Vec<Vec<u8>> = Vec::new();
                let mut x = splitmix(salt ^ (&junk as *const _ as u64));
                for i in 0..400usize {
                    x = splitmix(x);
                    let len = 1 + (x % 300) as usize + (i % 5) * 8;
                    junk.push((0..len).map(|j| (x >> (j % 56)) as u8 ^ j as u8).collect());
                }
                junk.truncate(200);
                drop(junk);
            };
            for rep in 0..size.min(8) {
                let nk = 3 + rep % 5;
                let m = [4usize, 32, 128][rep % 3];
                churn(rep as u64);
                let v16: Vec<Vec<u16>> = (0..nk).map(|i| (0..(1 + 3 * i + rep)).map(|j| rng.random::<u16>() ^ j as u16).collect()).collect();
                let d = sha_sig::<Vec<u16>>(v16, vec![], m);
                out.push((format!("pmh3asha/keys=Vec<u16>/m={}/#{}", m, rep), fnv64(format!("{:?}", d).as_bytes())));
                churn(rep as u64 + 100);
                let v32: Vec<Vec<u32>> = (0..nk).map(|i| (0..(2 + 2 * i + rep)).map(|_| rng.random::<u32>()).collect()).collect();
                let d = sha_sig::<Vec<u32>>(v32, vec![], m);
                out.push((format!("pmh3asha/keys=Vec<u32>/m={}/#{}", m, rep), fnv64(format!("{:?}", d).as_bytes())));
                churn(rep as u64 + 200);
                let v8: Vec<Vec<u8>> = (0..nk).map(|i| (0..(1 + 5 * i)).map(|_| rng.random::<u8>()).collect()).collect();
                let d = sha_sig::<Vec<u8>>(v8, vec![], m);
                out.push((format!("pmh3asha/keys=Vec<u8>/m={}/#{}", m, rep), fnv64(format!("{:?}", d).as_bytes())));
                let st: Vec<String> = (0..nk).map(|i| format!("clé-{}-{}", i, rng.random::<u32>())).collect();
                let d = sha_sig::<String>(st, String::new(), m);
                out.push((format!("pmh3asha/keys=String/m={}/#{}", m, rep), fnv64(format!("{:?}", d).as_bytes())));
                let ints: Vec<i32> = (0..nk).map(|_| rng.random::<i32>() | 1).collect();
                let d = sha_sig::<i32>(ints, 0, m);
                out.push((format!("pmh3asha/keys=i32/m={}/#{}", m, rep), fnv64(format!("{:?}", d).as_bytes())));
            }
        }
    }
    if sec == 2 {
        // ---- ProbOrdMinHash2 on long sequences (tens of thousands of distinct elements that come back later)
        for rep in 0..2usize.min(size) {
            // more distinct elements than 2^16 in the first one
            let nd = [70_000usize, 9_000][rep % 2];
            let ids = fresh_ids(&mut rng, nd, 0);
            let mut seq = ids.clone();
            seq.extend(ids.iter().rev().step_by(2));
            seq.extend_from_slice(&ids[..nd / 2]);
            let s1 = ProbOrdMinHash2::<FnvHasher>::new(16, 2).hash_set(&seq);
            out.push((format!("probordminhash2/Fnv/long/distinct={}/len={}/#{}", nd, seq.len(), rep), digest_u64s(&s1)));
        }
    }
    if sec == 3 {
        // ---- ProbOrdMinHash2
        for rep in 0..size * 2 {
            let l = [1usize, 2, 3, 5][rep % 4];
            let m = [1u32, 8, 64, 256][(rep / 2) % 4];
            let len = l + [0usize, 5, 30, 100][rep % 4];
            let alphabet = fresh_ids(&mut rng, (len / 2).max(1), 0);
            let seq: Vec<u64> = (0..len).map(|_| alphabet[rng.random_range(0..alphabet.len())]).collect();
            let s1 = ProbOrdMinHash2::<FnvHasher>::new(m, l).hash_set(&seq);
            out.push((format!("probordminhash2/Fnv/m={}/l={}/len={}/#{}", m, l, len, rep), digest_u64s(&s1)));
            let s2 = ProbOrdMinHash2::<WyHash>::new(m, l).hash_set(&seq);
            out.push((format!("probordminhash2/WyHash/m={}/l={}/len={}/#{}", m, l, len, rep), digest_u64s(&s2)));
            // a reused instance: second call on the same instance
            let mut inst = ProbOrdMinHash2::<FnvHasher>::new(m, l);
            let _ = inst.hash_set(&seq[..l.max(len / 2)]);
            let s3 = inst.hash_set(&seq);
            out.push((format!("probordminhash2/Fnv/reused/m={}/l={}/len={}/#{}", m, l, len, rep), digest_u64s(&s3)));
        }
    }
    if sec == 4 {
        // ---- unweighted sketchers, all views
        for (ki, k) in kinds.iter().enumerate() {
            for rep in 0..size {
                let n = [1usize, 7, 300, 3000][(rep + ki) % 4];
                let mut m = [1usize, 10, 128, 1000][(rep + 2 * ki) % 4];
                if k.is_rev() {
                    m = m.min(300);
                }
                let ids = if k.is_nohash() { ids_with_specials(&mut rng, n) } else { fresh_ids(&mut rng, n, 0) };
                let mut s = make_usk(*k, m);
                if rep % 2 == 0 {
                    s.sketch_slice(&ids);
                } else {
                    for d in &ids {
                        s.sketch(*d);
                    }
                    s.finish();
                }
                out.push((format!("{}/n={}/m={}/#{}", k.name(), n, m, rep), digest_u64s(&s.bits())));
            }
        }
    }
    if sec == 5 {
        // ---- two live instances fed in lockstep must not influence each other ("any number of instances"):
        // digest = xor of (lockstep digest, alone digest) for both instances, must be 0
        for (ki, k) in kinds.iter().enumerate() {
            for rep in 0..size.min(6) {
                let n = [1usize, 2, 40, 400][(rep + ki) % 4];
                let m = [1usize, 16, 128, 300][(rep + 3 * ki) % 4];
                let a = if k.is_nohash() { ids_with_specials(&mut rng, n) } else { fresh_ids(&mut rng, n, 0) };
                let b = fresh_ids(&mut rng, n, 0);
                let alone = |xs: &[u64]| {
                    let mut s = make_usk(*k, m);
                    for d in xs {
                        s.sketch(*d);
                    }
                    s.finish();
                    digest_u64s(&s.bits())
                };
                let (da, db) = (alone(&a), alone(&b));
                let mut sa = make_usk(*k, m);
                let mut sb = make_usk(*k, m);
                for i in 0..n {
                    sa.sketch(a[i]);
                    sb.sketch(b[i]);
                }
                sa.finish();
                sb.finish();
                let x = (digest_u64s(&sa.bits()) ^ da) | (digest_u64s(&sb.bits()) ^ db);
                out.push((format!("{}/lockstep-vs-alone/n={}/m={}/#{}", k.name(), n, m, rep), x));
            }
        }
    }
    if sec == 6 {
        // same for the item-wise ProbMinHash variants
        for rep in 0..size.min(6) {
            use probminhash::probminhasher::{ProbMinHash2, ProbMinHash3};
            let n = [1usize, 3, 30, 200][rep % 4];
            let m = [2usize, 8, 64, 256][(rep + 1) % 4];
            let wa: Vec<(u64, f64)> = fresh_ids(&mut rng, n, 0).into_iter().map(|d| (d, rng.random_range(0.1..10.))).collect();
            let wb: Vec<(u64, f64)> = fresh_ids(&mut rng, n, 0).into_iter().map(|d| (d, rng.random_range(0.1..10.))).collect();
            let (ra, _) = pmh(Pv::P2, Hs::Fnv, m, &wa, Entry::Item, 0);
            let (rb, _) = pmh(Pv::P2, Hs::Fnv, m, &wb, Entry::Item, 0);
            let mut s1 = ProbMinHash2::<u64, FnvHasher>::new(m, 0);
            let mut s2 = ProbMinHash2::<u64, FnvHasher>::new(m, 0);
            for i in 0..n {
                s1.hash_item(wa[i].0, wa[i].1);
                s2.hash_item(wb[i].0, wb[i].1);
            }
            let x = (digest_u64s(s1.get_signature()) ^ digest_u64s(&ra)) | (digest_u64s(s2.get_signature()) ^ digest_u64s(&rb));
            out.push((format!("pmh2/lockstep-vs-alone/n={}/m={}/#{}", n, m, rep), x));
            let (ra, _) = pmh(Pv::P3, Hs::Fnv, m, &wa, Entry::Item, 0);
            let (rb, _) = pmh(Pv::P3, Hs::Fnv, m, &wb, Entry::Item, 0);
            let mut s1 = ProbMinHash3::<u64, FnvHasher>::new(m, 0);
            let mut s2 = ProbMinHash3::<u64, FnvHasher>::new(m, 0);
            for i in 0..n {
                s1.hash_item(wa[i].0, &wa[i].1);
                s2.hash_item(wb[i].0, &wb[i].1);
            }
            let x = (digest_u64s(s1.get_signature()) ^ digest_u64s(&ra)) | (digest_u64s(s2.get_signature()) ^ digest_u64s(&rb));
            out.push((format!("pmh3/lockstep-vs-alone/n={}/m={}/#{}", n, m, rep), x));
        }
    }
    out
}

/// the whole battery in canonical order
pub fn battery(seed: u64, size: usize) -> Vec<(String, u64)> {
    (0..NSECTIONS).flat_map(|s| battery_section(seed, size, s)).collect()
}

/// the whole battery, sections executed starting at `rot` (results returned in canonical order)
pub fn battery_rotated(seed: u64, size: usize, rot: usize) -> Vec<(String, u64)> {
    let mut parts: Vec<(usize, Vec<(String, u64)>)> = (0..NSECTIONS).map(|i| (rot + i) % NSECTIONS).map(|s| (s, battery_section(seed, size, s))).collect();
    parts.sort_by_key(|p| p.0);
    parts.into_iter().flat_map(|p| p.1).collect()
}

/// one small case of the hammer leg: (type, size, input seed) -> digest
fn hammer_case(kind: usize, m: usize, iseed: u64) -> u64 {
    let mut rng = rng_from(iseed);
    match kind {
        0 | 1 => {
            // sparse densified sketch (far fewer items than bins): densification does most of the work
            let k = if kind == 0 { UKind::RevF64 } else { UKind::OptF64 };
            let ids = fresh_ids(&mut rng, 1 + m / 40, 0);
            let mut s = make_usk(k, m);
            s.sketch_slice(&ids);
            digest_u64s(&s.bits())
        }
        2 => {
            // ProbMinHash3 family: construction (sampler constants) + a tiny set
            let v = [Pv::P3, Pv::P3a, Pv::P3aSha][(iseed % 3) as usize];
            let w: Vec<(u64, f64)> = fresh_ids(&mut rng, 3, 0).into_iter().map(|d| (d, rng.random_range(0.5..4.0))).collect();
            let (sig, reg) = pmh(v, Hs::Fnv, m, &w, Entry::IdxMap, 0);
            mix(&[digest_u64s(&sig), digest_f64s(&reg)])
        }
        3 => {
            let ids = fresh_ids(&mut rng, 5 + m / 8, 0);
            let mut s = make_usk(UKind::SetU16(1.05, 30., 2000), m);
            s.sketch_slice(&ids);
            digest_u64s(&s.bits())
        }
        _ => {
            let ids = fresh_ids(&mut rng, 4, 0);
            let mut s = make_usk(if iseed % 2 == 0 { UKind::SmhF64 } else { UKind::Smh2U64 }, m);
            s.sketch_slice(&ids);
            digest_u64s(&s.bits())
        }
    }
}

/// hammer leg: rounds in which all threads are released together on configurations not seen before in the process, either
/// all on the same one (contention on whatever is shared per configuration) or each on another one (cross-talk between
/// configurations). Every digest is compared with the digest of the same case computed afterwards by one thread.
fn hammer(seed: u64, rounds: usize, nthreads: usize, iters: usize) -> (u64, Vec<String>) {
    let mut mism = Vec::new();
    let mut nexec = 0u64;
    let sizes = [2usize, 3, 7, 16, 64, 200, 37, 513];
    for r in 0..rounds {
        let kind = r % 5;
        let same = (r / 5) % 2 == 0;
        let barrier = Arc::new(Barrier::new(nthreads));
        // configuration of (thread, iteration)
        let cfg = move |ti: usize, it: usize| -> (usize, u64) {
            let m = if kind <= 1 { 400 + 13 * r + if same { 0 } else { 7 * ti } + it % 2 } else if same { sizes[(r + it) % sizes.len()] } else { sizes[(ti + r + it) % sizes.len()] };
            let iseed = mix(&[seed, r as u64, if same { 0 } else { ti as u64 }, it as u64]);
            (m.max(2), iseed)
        };
        let n_it = if kind <= 1 { 2 } else { iters };
        let results: Vec<Vec<u64>> = std::thread::scope(|s| {
            let hs: Vec<_> = (0..nthreads)
                .map(|ti| {
                    let b = barrier.clone();
                    s.spawn(move || {
                        b.wait();
                        (0..n_it).map(|it| { let (m, is) = cfg(ti, it); hammer_case(kind, m, is) }).collect::<Vec<u64>>()
                    })
                })
                .collect();
            hs.into_iter().map(|h| h.join().expect("hammer thread panicked")).collect()
        });
        for ti in 0..nthreads {
            for it in 0..n_it {
                nexec += 1;
                let (m, is) = cfg(ti, it);
                let want = hammer_case(kind, m, is);
                if results[ti][it] != want && mism.len() < 6 {
                    mism.push(format!("hammer round {} ({} configuration per round, case type {}, m={}): thread {} iteration {} got {:#x}, the same case computed alone afterwards gives {:#x}", r, if same { "same" } else { "different" }, kind, m, ti, it, results[ti][it], want));
                }
            }
        }
    }
    (nexec, mism)
}

/// neighbouring configurations: (family, configuration A, configuration B) where B differs from A in exactly one parameter.
/// `neigh_digest(pair, which, seed)` sketches a fixed small input under configuration A (which = 0) or B (which = 1).
pub const NEIGH_PAIRS: usize = 31;
pub fn neigh_name(pair: usize) -> String {
    let (fam, what) = neigh_cfg(pair);
    format!("{}: {}", fam, what)
}
fn neigh_cfg(pair: usize) -> (&'static str, &'static str) {
    match pair {
        0 => ("SetSketcher<u16>", "b 1.1 -> 1.2"),
        1 => ("SetSketcher<u16>", "m 64 -> 65"),
        2 => ("SetSketcher<u16>", "a 20 -> 30"),
        3 => ("SetSketcher<u16>", "q 1000 -> 500"),
        4 => ("SetSketcher<u32>", "b 1.1 -> 1.2"),
        5 => ("SetSketcher<u32>", "m 64 -> 65"),
        6 => ("SetSketcher<u32>", "a 20 -> 30"),
        7 => ("SetSketcher<u32>", "q 1000 -> 500"),
        8 => ("ProbOrdMinHash2", "l 2 -> 3"),
        9 => ("ProbOrdMinHash2", "m 16 -> 17"),
        10 => ("ProbOrdMinHash2", "m 16 -> 32 with l 2"),
        11..=14 => ("ProbMinHash", "m 16 -> 17"),
        15..=18 => ("ProbMinHash", "placeholder 0 -> 7"),
        19..=22 => ("ProbMinHash", "hasher Fnv -> NoHash (same m)"),
        23 => ("SuperMinHash<f32>", "m 16 -> 17"),
        24 => ("SuperMinHash<f64>", "m 16 -> 17"),
        25 => ("SuperMinHash2<u64>", "m 16 -> 17"),
        26 => ("SuperMinHash2<u32>", "m 16 -> 17"),
        27 => ("OptDensMinHash<f32>", "m 200 -> 201"),
        28 => ("OptDensMinHash<f64>", "m 200 -> 201"),
        29 => ("RevOptDensMinHash<f32>", "m 200 -> 201"),
        _ => ("RevOptDensMinHash<f64>", "m 200 -> 201"),
    }
}
pub fn neigh_digest(pair: usize, which: usize, seed: u64) -> u64 {
    let mut rng = rng_from(mix(&[seed, 0x4e16, pair as u64]));
    let ids = fresh_ids(&mut rng, 40, 0);
    let b = which == 1;
    let usk = |k: UKind, m: usize, xs: &[u64]| {
        let mut s = make_usk(k, m);
        s.sketch_slice(xs);
        digest_u64s(&s.bits())
    };
    match pair {
        0..=7 => {
            let (mut bb, mut m, mut a, mut q) = (1.1, 64usize, 20., 1000u64);
            if b {
                match pair % 4 {
                    0 => bb = 1.2,
                    1 => m = 65,
                    2 => a = 30.,
                    _ => q = 500,
                }
            }
            usk(if pair < 4 { UKind::SetU16(bb, a, q) } else { UKind::SetU32(bb, a, q) }, m, &ids)
        }
        8..=10 => {
            let (m, l) = match (pair, b) {
                (8, true) => (16u32, 3usize),
                (9, true) => (17, 2),
                (10, true) => (32, 2),
                _ => (16, 2),
            };
            let seq: Vec<u64> = (0..30).map(|i| ids[(i * 7) % 11]).collect();
            digest_u64s(&ProbOrdMinHash2::<FnvHasher>::new(m, l).hash_set(&seq))
        }
        11..=22 => {
            let v = ALL_PV[(pair - 11) % 4];
            let w: Vec<(u64, f64)> = ids.iter().take(12).map(|&d| (d | 8, 0.5 + (d % 7) as f64)).collect();
            let (m, ph, hs) = match ((pair - 11) / 4, b) {
                (0, true) => (17, 0, Hs::Fnv),
                (1, true) => (16, 7, Hs::Fnv),
                (2, true) if v != Pv::P3aSha => (16, 0, Hs::NoHash),
                (2, true) => (16, 3, Hs::Fnv),
                _ => (16, 0, Hs::Fnv),
            };
            let e = if v == Pv::P2 || v == Pv::P3 { Entry::Item } else { Entry::IdxMap };
            let (sig, reg) = pmh(v, hs, m, &w, e, ph);
            mix(&[digest_u64s(&sig), digest_f64s(&reg)])
        }
        23..=26 => usk([UKind::SmhF32, UKind::SmhF64, UKind::Smh2U64, UKind::Smh2U32][pair - 23], if b { 17 } else { 16 }, &ids),
        _ => usk([UKind::OptF32, UKind::OptF64, UKind::RevF32, UKind::RevF64][(pair - 27).min(3)], if b { 201 } else { 200 }, &ids),
    }
}

fn battery_size(tier: Tier) -> usize {
    tier.pick(12, 60)
}

pub fn run(rep: &mut Report) {
    quiet_panics();
    rep.rule = "a battery of (sketcher type, parameters, entry point, input) cases covering every public sketcher (4 ProbMinHash variants x entry points incl. std HashMap, ProbOrdMinHash2 with 2 hashers incl. reused instance, SuperMinHash f32/f64/NoHash, SuperMinHash2 u64/u32, SetSketch 6 tuples, Opt/RevOpt densification all views) is digested (bit patterns) by: (i) two passes in the main thread, (ii) 16 threads released by a barrier, each constructing its own instances, (iii) child processes (different ASLR, RandomState keys, thread_rng state), cold processes whose 16 threads start at once, and 31 pairs of configurations that differ in exactly one parameter, each run in new processes in the orders A B / B A / A A B / B B A (the digest of a configuration must not depend on what ran before). All digests of a case must agree. Distinct = battery cases; non-trivial = all (each involves randomised hashing of >= 1 item)".into();
    let seed = subseed(rep.seed, "C12/battery", &[]);
    let size = battery_size(rep.tier);
    // canaries: the battery in four child processes before anything runs in the monitor process. If the code under test kills a
    // process (abort, segmentation fault) or already gives different digests in different processes, the monitor reports that and
    // stops: it must not run such code in its own address space (it would die before it could report).
    {
        use std::os::unix::process::ExitStatusExt;
        let exe = std::env::current_exe().unwrap();
        let kids: Vec<_> = (0..4)
            .map(|_| std::process::Command::new(&exe).args(["child", "c12", &seed.to_string(), &size.to_string()]).env("RUST_BACKTRACE", "0").stdout(std::process::Stdio::piped()).stderr(std::process::Stdio::null()).spawn())
            .collect();
        let mut outs: Vec<Vec<(String, u64)>> = Vec::new();
        let mut decided = false;
        for (i, k) in kids.into_iter().enumerate() {
            match k.and_then(|k| k.wait_with_output()) {
                Ok(o) if o.status.success() => {
                    let text = String::from_utf8_lossy(&o.stdout);
                    outs.push(text.lines().filter_map(|l| l.strip_prefix("CASE ")).filter_map(|r| r.split_once(' ')).map(|(d, n)| (n.to_string(), u64::from_str_radix(d, 16).unwrap_or(0))).collect());
                }
                Ok(o) => {
                    rep.evaluations += 1;
                    rep.distinct.insert(1);
                    rep.violation("C12/process-crash", "battery", format!("canary child process {} that runs the battery once dies (exit code {:?}, signal {:?}) instead of producing the sketches", i, o.status.code(), o.status.signal()), json!({"canary": i}));
                    decided = true;
                }
                Err(e) => rep.inconclusive.push(format!("canary child could not be run: {}", e)),
            }
        }
        rep.count("processes.canaries_completed", outs.len() as u64);
        if !decided && outs.len() >= 2 {
            for (i, o) in outs.iter().enumerate().skip(1) {
                if let Some(((n0, d0), (_, d1))) = outs[0].iter().zip(o.iter()).find(|(a, b)| a != b) {
                    rep.evaluations += o.len() as u64;
                    rep.distinct.insert(fnv64(n0.as_bytes()));
                    let fam = n0.split('/').next().unwrap_or("?").to_string();
                    rep.violation(&format!("C12/{}", fam), "battery", format!("case {} is not reproducible: canary child process {} gives {:#x}, canary child process 0 gives {:#x}", n0, i, d1, d0), json!({"case": n0}));
                    decided = true;
                    break;
                }
            }
        }
        if decided {
            return;
        }
    }
    let reference = battery(seed, size);
    rep.evaluations += reference.len() as u64;
    for (name, d) in &reference {
        rep.distinct.insert(mix(&[fnv64(name.as_bytes()), *d]));
    }
    rep.sample(json!({"case": reference[0].0, "digest": format!("{:#x}", reference[0].1)}));
    rep.sample(json!({"case": reference[reference.len() / 2].0, "digest": format!("{:#x}", reference[reference.len() / 2].1)}));
    let mut mismatches: BTreeMap<String, Vec<String>> = BTreeMap::new();
    for (name, d) in &reference {
        if name.contains("lockstep-vs-alone") && *d != 0 {
            mismatches.entry(name.clone()).or_default().push("two live instances fed alternately give other sketches than the same instances fed alone".to_string());
        }
    }
    let mut compare = |who: &str, other: &[(String, u64)], mism: &mut BTreeMap<String, Vec<String>>| {
        if other.len() != reference.len() {
            mism.entry("battery-length".into()).or_default().push(format!("{} produced {} cases instead of {}", who, other.len(), reference.len()));
            return;
        }
        for ((n1, d1), (n2, d2)) in reference.iter().zip(other.iter()) {
            if n1 != n2 || d1 != d2 {
                mism.entry(n1.clone()).or_default().push(format!("{}: {:#x} vs reference {:#x}", who, d2, d1));
            }
        }
    };
    // (i) second pass, same thread, new instances
    if rep.want("instances") {
        let again = battery(seed, size);
        rep.evaluations += again.len() as u64;
        compare("second instance, same thread", &again, &mut mismatches);
        rep.count("instances.cases_compared", again.len() as u64);
    }
    // (ii) concurrent threads
    if rep.want("threads") {
        let nthreads = 16;
        let rounds = rep.tier.pick(2, 8);
        let mut overlaps = 0u64;
        let mut orders: std::collections::BTreeSet<Vec<usize>> = Default::default();
        for round in 0..rounds {
            let barrier = Arc::new(Barrier::new(nthreads));
            let t0 = Instant::now();
            let results: Vec<(Vec<(String, u64)>, f64, f64)> = std::thread::scope(|s| {
                let hs: Vec<_> = (0..nthreads)
                    .map(|ti| {
                        let b = barrier.clone();
                        s.spawn(move || {
                            b.wait();
                            let st = t0.elapsed().as_secs_f64();
                            // every thread starts in another section: different sketcher types and sizes run at the same time
                            let r = battery_rotated(seed, size, ti + round);
                            (r, st, t0.elapsed().as_secs_f64())
                        })
                    })
                    .collect();
                hs.into_iter().map(|h| h.join().expect("battery thread panicked")).collect()
            });
            let mut order: Vec<usize> = (0..nthreads).collect();
            order.sort_by(|&a, &b| results[a].2.partial_cmp(&results[b].2).unwrap());
            orders.insert(order);
            for i in 0..nthreads {
                for j in 0..i {
                    if results[i].1 < results[j].2 && results[j].1 < results[i].2 {
                        overlaps += 1;
                    }
                }
                rep.evaluations += results[i].0.len() as u64;
                compare(&format!("thread {} of round {}", i, round), &results[i].0, &mut mismatches);
            }
        }
        // hammer leg
        let (nexec, hm) = hammer(seed, rep.tier.pick(20, 100), nthreads, rep.tier.pick(300, 1500));
        rep.evaluations += nexec;
        rep.count("threads.hammer_cases_run", nexec);
        for h in hm {
            mismatches.entry("hammer/concurrent-vs-alone".into()).or_default().push(h);
        }
        rep.count("threads.overlapping_task_pairs_observed", overlaps);
        rep.count("threads.distinct_completion_orders_observed", orders.len() as u64);
        rep.count("threads.batteries_run", (nthreads * rounds) as u64);
    }
    // (iii) child processes
    if rep.want("processes") {
        let nproc = rep.tier.pick(4, 10);
        let exe = std::env::current_exe().unwrap();
        let mut proc_info = Vec::new();
        let children: Vec<_> = (0..nproc)
            .map(|_| std::process::Command::new(&exe).args(["child", "c12", &seed.to_string(), &size.to_string()]).env("RUST_BACKTRACE", "0").stdout(std::process::Stdio::piped()).stderr(std::process::Stdio::null()).spawn())
            .collect();
        for (pi, c) in children.into_iter().enumerate() {
            match c.and_then(|c| c.wait_with_output()) {
                Ok(o) if o.status.success() => {
                    let text = String::from_utf8_lossy(&o.stdout);
                    let mut res = Vec::new();
                    for line in text.lines() {
                        if let Some(rest) = line.strip_prefix("CASE ") {
                            if let Some((d, name)) = rest.split_once(' ') {
                                res.push((name.to_string(), u64::from_str_radix(d, 16).unwrap_or(0)));
                            }
                        } else if let Some(rest) = line.strip_prefix("PROCINFO ") {
                            proc_info.push(rest.to_string());
                        }
                    }
                    rep.evaluations += res.len() as u64;
                    compare(&format!("child process {}", pi), &res, &mut mismatches);
                }
                Ok(o) => rep.inconclusive.push(format!("child process {} exited with {:?}", pi, o.status.code())),
                Err(e) => rep.inconclusive.push(format!("child process {} could not be run: {}", pi, e)),
            }
        }
        // cold processes in which 16 threads start the battery at once (no single-threaded warm-up of any process-wide state)
        let npar = rep.tier.pick(3, 8);
        let pchildren: Vec<_> = (0..npar)
            .map(|_| std::process::Command::new(&exe).args(["child", "c12", &seed.to_string(), &size.to_string(), "par", "16"]).env("RUST_BACKTRACE", "0").stdout(std::process::Stdio::piped()).stderr(std::process::Stdio::null()).spawn())
            .collect();
        for (pi, c) in pchildren.into_iter().enumerate() {
            match c.and_then(|c| c.wait_with_output()) {
                Ok(o) if o.status.success() => {
                    let text = String::from_utf8_lossy(&o.stdout);
                    let mut per_thread: BTreeMap<usize, Vec<(String, u64)>> = BTreeMap::new();
                    for line in text.lines() {
                        if let Some(rest) = line.strip_prefix("TCASE ") {
                            let mut it = rest.splitn(3, ' ');
                            if let (Some(t), Some(d), Some(name)) = (it.next(), it.next(), it.next()) {
                                per_thread.entry(t.parse().unwrap_or(0)).or_default().push((name.to_string(), u64::from_str_radix(d, 16).unwrap_or(0)));
                            }
                        }
                    }
                    for (t, res) in per_thread {
                        rep.evaluations += res.len() as u64;
                        compare(&format!("thread {} of cold parallel process {}", t, pi), &res, &mut mismatches);
                    }
                }
                Ok(o) => rep.violation("C12/process-crash", "processes", format!("cold parallel child process {} died (exit {:?}) while 16 threads ran the battery", pi, o.status.code()), json!({"child": pi})),
                Err(e) => rep.inconclusive.push(format!("parallel child process {} could not be run: {}", pi, e)),
            }
        }
        rep.count("processes.cold_parallel_children", npar as u64);
        // neighbouring configurations: in a new process configuration A then B, in another one B then A; the digest of a
        // configuration must not depend on which other configuration the process (or thread) has used before
        let orders = ["ab", "ba", "aab", "bba"];
        let nchildren: Vec<_> = (0..NEIGH_PAIRS)
            .flat_map(|p| orders.iter().map(move |o| (p, *o)))
            .map(|(p, o)| (p, o, std::process::Command::new(&exe).args(["child", "c12", &seed.to_string(), "0", "neigh", &p.to_string(), o]).env("RUST_BACKTRACE", "0").stdout(std::process::Stdio::piped()).stderr(std::process::Stdio::null()).spawn()))
            .collect();
        let mut seen: BTreeMap<(usize, char), (u64, String)> = BTreeMap::new();
        let mut nneigh = 0u64;
        for (p, o, c) in nchildren {
            match c.and_then(|c| c.wait_with_output()) {
                Ok(out) if out.status.success() => {
                    let text = String::from_utf8_lossy(&out.stdout);
                    for line in text.lines() {
                        if let Some(rest) = line.strip_prefix("NEIGH ") {
                            let mut it = rest.split(' ');
                            if let (Some(w), Some(d)) = (it.next(), it.next()) {
                                let which = w.chars().next().unwrap_or('?');
                                let d = u64::from_str_radix(d, 16).unwrap_or(0);
                                nneigh += 1;
                                match seen.get(&(p, which)) {
                                    Some((d0, o0)) if *d0 != d => {
                                        mismatches.entry(format!("{}/neighbour-configurations", neigh_cfg(p).0)).or_default().push(format!("configuration {} of the pair '{}' gives {:#x} in a new process that runs the sequence '{}' and {:#x} in one that runs '{}': the result depends on the configuration used before", which.to_ascii_uppercase(), neigh_name(p), d, o, d0, o0));
                                    }
                                    Some(_) => {}
                                    None => {
                                        seen.insert((p, which), (d, o.to_string()));
                                    }
                                }
                            }
                        }
                    }
                }
                Ok(out) => rep.violation("C12/process-crash", "processes", format!("child process for neighbouring configurations '{}' order {} died (exit {:?})", neigh_name(p), o, out.status.code()), json!({"pair": p, "order": o})),
                Err(e) => rep.inconclusive.push(format!("neighbour child {} {} could not be run: {}", p, o, e)),
            }
        }
        rep.evaluations += nneigh;
        rep.count("processes.neighbour_configuration_digests", nneigh);
        rep.count("processes.neighbour_configuration_pairs", NEIGH_PAIRS as u64);
        let distinct_info: std::collections::BTreeSet<&String> = proc_info.iter().collect();
        rep.count("processes.children", nproc as u64);
        rep.count("processes.distinct_layout_or_randomstate_fingerprints", distinct_info.len() as u64);
        rep.extra.insert("process_fingerprints".into(), json!(proc_info.iter().take(4).collect::<Vec<_>>()));
    }
    // verdict: group by sketcher family (first path component) for the finding key
    for (case, what) in mismatches.iter() {
        let fam = case.split('/').next().unwrap_or("?");
        rep.violation(&format!("C12/{}", fam), "battery", format!("case {} is not reproducible: {}", case, what.iter().take(3).cloned().collect::<Vec<_>>().join("; ")), json!({"case": case}));
    }
    rep.count("cases_in_battery", reference.len() as u64);
    rep.count("cases_with_mismatch", mismatches.len() as u64);
    rep.assumptions.push("child processes get a fresh address space layout, RandomState keys and thread-local generator state from the OS (fingerprints recorded)".into());
}

pub fn child(a: &[String]) -> i32 {
    let seed: u64 = a.first().and_then(|s| s.parse().ok()).unwrap_or(1);
    let size: usize = a.get(1).and_then(|s| s.parse().ok()).unwrap_or(3);
    if a.get(2).map(|s| s == "neigh").unwrap_or(false) {
        let pair: usize = a.get(3).and_then(|s| s.parse().ok()).unwrap_or(0);
        let order = a.get(4).cloned().unwrap_or_else(|| "ab".into());
        for c in order.chars() {
            let d = neigh_digest(pair, if c == 'b' { 1 } else { 0 }, seed);
            println!("NEIGH {} {:x}", c, d);
        }
        return 0;
    }
    if a.get(2).map(|s| s == "par").unwrap_or(false) {
        // cold process: nothing of the crate has run yet; all threads start at once, each in another section
        let nthreads: usize = a.get(3).and_then(|s| s.parse().ok()).unwrap_or(16);
        let barrier = Arc::new(Barrier::new(nthreads));
        let results: Vec<Vec<(String, u64)>> = std::thread::scope(|s| {
            let hs: Vec<_> = (0..nthreads)
                .map(|ti| {
                    let b = barrier.clone();
                    s.spawn(move || {
                        b.wait();
                        battery_rotated(seed, size, ti)
                    })
                })
                .collect();
            hs.into_iter().map(|h| h.join().expect("battery thread panicked")).collect()
        });
        println!("PROCINFO cold-parallel pid={} threads={}", std::process::id(), nthreads);
        for (ti, r) in results.iter().enumerate() {
            for (name, d) in r {
                println!("TCASE {} {:x} {}", ti, d, name);
            }
        }
        return 0;
    }
    let local = 0u8;
    let heap = Box::new(0u8);
    use std::hash::BuildHasher;
    let rs = std::collections::hash_map::RandomState::new().hash_one(42u64);
    println!("PROCINFO stack={:p} heap={:p} randomstate_hash_of_42={:#x} pid={}", &local, &*heap, rs, std::process::id());
    for (name, d) in battery(seed, size) {
        println!("CASE {:x} {}", d, name);
    }
    0
}
