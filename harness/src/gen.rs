// workload generators
