//! workload generators: weight vectors, set pair shapes, streams, sequences
use crate::common::*;
use rand::Rng as _;
use rand::RngCore;
use rand_distr::{Distribution, StandardNormal};

/// a pair of weighted sets over a common index space 0..n (weight 0 = absent)
#[derive(Clone, Debug)]
pub struct PairSpec {
    pub name: String,
    pub wa: Vec<f64>,
    pub wb: Vec<f64>,
}

pub const WEIGHT_FAMILIES: [&str; 7] = ["equal", "geometric", "lognormal3", "one_heavy", "two_level", "tiny_huge_mix", "integer_counts"];
pub const OVERLAPS: [&str; 6] = ["disjoint", "identical", "nested", "partial_same_w", "partial_diff_w", "scaled_copy"];

/// weights of a family for n items
pub fn weights(family: &str, n: usize, rng: &mut Rng) -> Vec<f64> {
    match family {
        "equal" => vec![1.0; n],
        "geometric" => {
            // spread up to 1e6
            let r = if n > 1 { (1e6f64).powf(1. / (n as f64 - 1.)) } else { 1. };
            (0..n).map(|i| r.powi(i as i32)).collect()
        }
        "lognormal3" => (0..n).map(|_| {
            let z: f64 = StandardNormal.sample(rng);
            (3. * z).exp()
        }).collect(),
        "one_heavy" => {
            // one item carries 99.9 %
            let mut w = vec![1.0; n];
            if n > 1 {
                w[0] = 999. * (n as f64 - 1.);
            }
            w
        }
        "two_level" => (0..n).map(|i| if i % 2 == 0 { 1. } else { 100. }).collect(),
        "tiny_huge_mix" => (0..n).map(|_| 10f64.powf(rng.random_range(-9.0..6.0))).collect(),
        "integer_counts" => (0..n).map(|_| rng.random_range(1..20u32) as f64).collect(),
        _ => panic!("unknown family"),
    }
}

/// builds a pair over n union items
pub fn pair(family: &str, overlap: &str, n: usize, rng: &mut Rng) -> PairSpec {
    let w = weights(family, n, rng);
    let mut w2 = weights(family, n, rng);
    // decorrelate positions for deterministic families
    if matches!(family, "geometric" | "one_heavy" | "two_level") {
        for i in (1..n).rev() {
            let j = rng.random_range(0..=i);
            w2.swap(i, j);
        }
    }
    let mut wa = vec![0.; n];
    let mut wb = vec![0.; n];
    match overlap {
        "disjoint" => {
            let h = (n / 2).max(1);
            for i in 0..n {
                if i < h {
                    wa[i] = w[i];
                } else {
                    wb[i] = w[i];
                }
            }
            if n == 1 {
                // cannot be disjoint with one item : make B a different singleton by convention of the caller (n>=2 required)
                wb[0] = 0.;
            }
        }
        "identical" => {
            wa = w.clone();
            wb = w;
        }
        "nested" => {
            // A subset of B, same weights on A
            let h = (n / 3).max(1);
            for i in 0..n {
                wb[i] = w[i];
                if i < h {
                    wa[i] = w[i];
                }
            }
        }
        "partial_same_w" => {
            // thirds : A only, both (same weight), B only
            for i in 0..n {
                match i % 3 {
                    0 => wa[i] = w[i],
                    1 => {
                        wa[i] = w[i];
                        wb[i] = w[i];
                    }
                    _ => wb[i] = w[i],
                }
            }
        }
        "partial_diff_w" => {
            for i in 0..n {
                match i % 4 {
                    0 => wa[i] = w[i],
                    1 | 2 => {
                        wa[i] = w[i];
                        wb[i] = w2[i];
                    }
                    _ => wb[i] = w2[i],
                }
            }
        }
        "scaled_copy" => {
            // B = 7.5 * A : J_P must be exactly 1 in expectation (scale invariance) -- estimate is 1 only if races agree exactly,
            // which is not guaranteed bitwise for a non power of two factor; used with factor 8 (exact) in C02, here factor 8 too
            for i in 0..n {
                wa[i] = w[i];
                wb[i] = 8. * w[i];
            }
        }
        _ => panic!("unknown overlap"),
    }
    PairSpec { name: format!("{}/{}/n={}", family, overlap, n), wa, wb }
}

/// probability Jaccard index J_P = sum_{i in A∩B} 1 / sum_j max(wa_j/wa_i, wb_j/wb_i)
pub fn jp(wa: &[f64], wb: &[f64]) -> f64 {
    let n = wa.len();
    let mut s = 0.;
    for i in 0..n {
        if wa[i] > 0. && wb[i] > 0. {
            let mut den = 0.;
            for j in 0..n {
                den += (wa[j] / wa[i]).max(wb[j] / wb[i]);
            }
            s += 1. / den;
        }
    }
    s
}

/// n distinct random identifiers, none equal to `avoid`
pub fn fresh_ids(rng: &mut Rng, n: usize, avoid: u64) -> Vec<u64> {
    let mut v: Vec<u64> = Vec::with_capacity(n);
    while v.len() < n {
        let x = rng.next_u64();
        if x != avoid && x != 0 {
            v.push(x);
        }
    }
    // distinctness: 64-bit collisions among <= 1e6 draws have probability < 3e-8; enforce for small n cheaply
    if n <= 64 {
        loop {
            let mut dup = false;
            for i in 0..n {
                for j in 0..i {
                    if v[i] == v[j] {
                        v[i] = rng.next_u64() | 1;
                        dup = true;
                    }
                }
            }
            if !dup {
                break;
            }
        }
    }
    v
}

pub fn shuffle<T>(v: &mut [T], rng: &mut Rng) {
    for i in (1..v.len()).rev() {
        let j = rng.random_range(0..=i);
        v.swap(i, j);
    }
}

/// identifiers for sketchers using NoHashHasher (the value is the hash): adversarial hash values first
/// (0, u64::MAX = the initial value of several sketch fields, u32::MAX, small integers), then random ones
pub fn ids_with_specials(rng: &mut Rng, n: usize) -> Vec<u64> {
    let specials = [u64::MAX, 0u64, 1, u32::MAX as u64, u64::MAX - 1, 1 << 63, 2, 0xffff_ffff_0000_0000];
    let mut v: Vec<u64> = Vec::with_capacity(n);
    let k = rng.random_range(1..=specials.len()).min(n);
    let off = rng.random_range(0..specials.len());
    for i in 0..k {
        v.push(specials[(off + i) % specials.len()]);
    }
    while v.len() < n {
        let x = rng.next_u64();
        if !specials.contains(&x) {
            v.push(x);
        }
    }
    shuffle(&mut v, rng);
    v
}
