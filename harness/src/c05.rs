//! C05 — sketch of a union is the position-wise join; SetSketch merge is exact (model-based monitor)
use crate::common::*;
use crate::gen::*;
use fnv::FnvHasher;
use num::{Bounded, FromPrimitive, Integer, ToPrimitive};
use probminhash::setsketcher::{SetSketchParams, SetSketcher};
use probminhash::superminhasher::SuperMinHash;
use rand::Rng as _;
use rayon::prelude::*;
use serde_json::{json, Value};
use std::collections::HashMap;

type Sk<I> = SetSketcher<I, u64, FnvHasher>;

trait Reg: Integer + ToPrimitive + FromPrimitive + Bounded + Copy + Clone + std::fmt::Debug + Send + Sync + 'static {
    const NAME: &'static str;
}
impl Reg for u16 {
    const NAME: &'static str = "u16";
}
impl Reg for u32 {
    const NAME: &'static str = "u32";
}

fn regs<I: Reg>(s: &Sk<I>) -> Vec<u64> {
    s.get_signature().iter().map(|v| v.to_u64().unwrap()).collect()
}

struct Hist {
    ops: Vec<Value>,
    nops: u64,
    fail: Option<(String, String)>,
}

#[derive(Clone, Copy, Debug)]
struct P {
    b: f64,
    m: u64,
    a: f64,
    q: u64,
}

fn params_of(p: P) -> SetSketchParams {
    SetSketchParams::new(p.b, p.m, p.a, p.q)
}

/// observables of a sketcher that a refused merge must leave unchanged
fn observables<I: Reg>(s: &Sk<I>) -> (Vec<u64>, i64, u64, u64) {
    (regs(s), s.get_low_sketch(), s.get_nb_overflow(), s.get_cardinal_stats().0.to_bits())
}

fn history<I: Reg>(p: P, seed: u64, len: usize, maxitems: usize) -> Hist {
    let mut rng = rng_from(seed);
    let m = p.m as usize;
    let nsk = rng.random_range(2..=5);
    let mut sks: Vec<Sk<I>> = (0..nsk).map(|_| Sk::<I>::new(params_of(p), Default::default())).collect();
    let mut model: Vec<Vec<u64>> = vec![vec![0u64; m]; nsk];
    let mut cache: HashMap<u64, Vec<u64>> = HashMap::new();
    let universe = fresh_ids(&mut rng, maxitems, 0);
    let mut h = Hist { ops: vec![], nops: 0, fail: None };
    let single = |cache: &mut HashMap<u64, Vec<u64>>, d: u64| -> Vec<u64> {
        cache
            .entry(d)
            .or_insert_with(|| {
                let mut s = Sk::<I>::new(params_of(p), Default::default());
                s.sketch(&d).unwrap();
                regs(&s)
            })
            .clone()
    };
    for step in 0..len {
        let i = rng.random_range(0..nsk);
        let choice = rng.random_range(0..100);
        if choice < 55 {
            // stream a chunk of items (duplicates allowed) into sketcher i
            let k = match rng.random_range(0..4) {
                0 => 1,
                1 => rng.random_range(1..5),
                _ => rng.random_range(1..(maxitems / 4).max(2)),
            };
            let items: Vec<u64> = (0..k).map(|_| universe[rng.random_range(0..universe.len())]).collect();
            if rng.random_range(0..2) == 0 {
                sks[i].sketch_slice(&items).unwrap();
            } else {
                for d in &items {
                    sks[i].sketch(d).unwrap();
                }
            }
            for d in &items {
                let s = single(&mut cache, *d);
                for pp in 0..m {
                    if s[pp] > model[i][pp] {
                        model[i][pp] = s[pp];
                    }
                }
            }
            if h.ops.len() < 30 {
                h.ops.push(json!(["sketch", i, k]));
            }
        } else if choice < 85 {
            // merge j into i (j may equal a sketcher with the same content: idempotence; empty sides happen naturally)
            let j = rng.random_range(0..nsk);
            if i == j {
                continue;
            }
            let (a, b) = if i < j {
                let (l, r) = sks.split_at_mut(j);
                (&mut l[i], &r[0])
            } else {
                let (l, r) = sks.split_at_mut(i);
                (&mut r[0], &l[j])
            };
            let res = a.merge(b);
            if res.is_err() {
                h.fail = Some(("C05/merge-refused".into(), format!("step {}: merge between sketchers with identical parameters was refused", step)));
                return h;
            }
            let mj = model[j].clone();
            for pp in 0..m {
                if mj[pp] > model[i][pp] {
                    model[i][pp] = mj[pp];
                }
            }
            if h.ops.len() < 30 {
                h.ops.push(json!(["merge", i, j]));
            }
        } else {
            // refused merge: other differs in exactly one parameter
            let mut q = p;
            let which = rng.random_range(0..4);
            let rel = [1e-12, 1e-9, 1e-6, 1e-3, 0.5][rng.random_range(0..5)];
            match which {
                0 => q.m = if rng.random_range(0..2) == 0 { p.m + 1 } else { p.m * 2 },
                1 => q.q = if rng.random_range(0..2) == 0 { p.q + 1 } else { p.q + 100 },
                2 => q.a = p.a * (1. + rel),
                _ => q.b = p.b * (1. + rel),
            }
            let mut other = Sk::<I>::new(params_of(q), Default::default());
            for _ in 0..rng.random_range(0..20) {
                other.sketch(&universe[rng.random_range(0..universe.len())]).unwrap();
            }
            let before = observables(&sks[i]);
            let res = sks[i].merge(&other);
            let after = observables(&sks[i]);
            h.nops += 1;
            let differs = q.m != p.m || q.q != p.q || (q.a - p.a).abs() / p.a >= 1e-12 * 0.999 || (q.b - p.b).abs() / p.b >= 1e-12 * 0.999;
            if differs {
                if res.is_ok() {
                    h.fail = Some(("C05/mismatch-accepted".into(), format!("step {}: merge accepted although parameters differ: receiver {:?}, other {:?}", step, p, q)));
                    return h;
                }
                if before != after {
                    h.fail = Some(("C05/refused-merge-mutates".into(), format!("step {}: refused merge changed the receiver (registers/low/overflow/cardinality): {:?} vs {:?}", step, p, q)));
                    return h;
                }
            }
            if h.ops.len() < 30 {
                h.ops.push(json!(["refused_merge", i, which]));
            }
            continue;
        }
        // observe after every operation
        h.nops += 1;
        let r = regs(&sks[i]);
        if r != model[i] {
            let pp = (0..m).find(|&x| r[x] != model[i][x]).unwrap();
            h.fail = Some(("C05/not-the-join".into(), format!("step {}: register {} of sketcher {} is {} but the position-wise maximum over the single-item sketches of everything it has seen is {}", step, pp, i, r[pp], model[i][pp])));
            return h;
        }
        let low = sks[i].get_low_sketch();
        let mn = *r.iter().min().unwrap() as i64;
        if low > mn {
            h.fail = Some(("C05/low-above-min".into(), format!("step {}: get_low_sketch() = {} exceeds the true minimum register {}", step, low, mn)));
            return h;
        }
    }
    // commutativity / associativity at the end: merge everything in two different orders into fresh sketchers
    let mut order: Vec<usize> = (0..nsk).collect();
    let mut fin: Vec<Vec<u64>> = Vec::new();
    for _ in 0..2 {
        shuffle(&mut order, &mut rng);
        let mut acc = Sk::<I>::new(params_of(p), Default::default());
        for &j in &order {
            acc.merge(&sks[j]).unwrap();
            h.nops += 1;
        }
        // idempotence
        let before = regs(&acc);
        acc.merge(&sks[order[0]]).unwrap();
        if regs(&acc) != before {
            h.fail = Some(("C05/not-idempotent".into(), "merging an already merged sketch again changed the registers".into()));
            return h;
        }
        fin.push(before);
    }
    if fin[0] != fin[1] {
        h.fail = Some(("C05/merge-order".into(), "merging the same sketches in two different orders gives different registers".into()));
        return h;
    }
    let mut all = vec![0u64; m];
    for mm in &model {
        for pp in 0..m {
            all[pp] = all[pp].max(mm[pp]);
        }
    }
    if fin[0] != all {
        h.fail = Some(("C05/not-the-join".into(), "merge of all sketchers differs from the join of the single-item sketches of the union".into()));
    }
    h
}

/// SuperMinHash: sketch == position-wise minimum of single item sketches, after every chunk
fn smh_join<F: num::Float + rand_distr::uniform::SampleUniform + std::fmt::Debug + 'static>(m: usize, seed: u64, n: usize) -> (u64, Option<(String, String)>) {
    if seed % 3 == 0 {
        smh_join_h::<F, probminhash::superminhasher::NoHashHasher>(m, seed, n, true)
    } else {
        smh_join_h::<F, FnvHasher>(m, seed, n, false)
    }
}

fn smh_join_h<F: num::Float + rand_distr::uniform::SampleUniform + std::fmt::Debug + 'static, H: std::hash::Hasher + Default>(m: usize, seed: u64, n: usize, specials: bool) -> (u64, Option<(String, String)>) {
    let mut rng = rng_from(seed);
    // with the pass-through hasher the stream holds adversarial hash values (0, u64::MAX, ...), often in front
    let ids = if specials {
        let mut v = ids_with_specials(&mut rng, n);
        if let Some(p) = v.iter().position(|x| *x == 0) {
            if rng.random_range(0..2) == 0 {
                v.swap(0, p);
            }
        }
        v
    } else {
        fresh_ids(&mut rng, n, 0)
    };
    let mut sk = SuperMinHash::<F, u64, H>::new(m, Default::default());
    let mut single = SuperMinHash::<F, u64, H>::new(m, Default::default());
    let reuse_singles = rng.random_range(0..2) == 0;
    let mut model = vec![f64::INFINITY; m];
    let mut nops = 0;
    let mut pos = 0;
    while pos < n {
        let k = rng.random_range(1..=(n - pos).min(64));
        let mut chunk: Vec<u64> = ids[pos..pos + k].to_vec();
        // some repeats of earlier items
        for _ in 0..rng.random_range(0..3) {
            chunk.push(ids[rng.random_range(0..pos + k)]);
        }
        sk.sketch_slice(&chunk).unwrap();
        for d in &ids[pos..pos + k] {
            // single-item sketches from a new sketcher or from one sketcher reused through reinit
            let fresh;
            let s1 = if reuse_singles {
                single.reinit();
                single.sketch(d).unwrap();
                &single
            } else {
                fresh = {
                    let mut t = SuperMinHash::<F, u64, H>::new(m, Default::default());
                    t.sketch(d).unwrap();
                    t
                };
                &fresh
            };
            for (pp, v) in s1.get_hsketch().iter().enumerate() {
                let v = v.to_f64().unwrap();
                if v < model[pp] {
                    model[pp] = v;
                }
            }
        }
        pos += k;
        nops += 1;
        let r: Vec<f64> = sk.get_hsketch().iter().map(|v| v.to_f64().unwrap()).collect();
        for pp in 0..m {
            if r[pp].to_bits() != model[pp].to_bits() {
                return (nops, Some(("C05/smh-not-the-join".into(), format!("SuperMinHash m={} after {} items: position {} holds {} but the minimum over single-item sketches is {}", m, pos, pp, r[pp], model[pp]))));
            }
        }
    }
    (nops, None)
}

pub fn run(rep: &mut Report) {
    quiet_panics();
    rep.rule = "SetSketch: random operation histories (2-5 sketchers with identical parameters; ops: sketch chunk / item-wise, merge j into i, merge from a sketcher differing in exactly one of m,q,a,b) over parameter tuples b in {1.001,1.05,1.2,2}, m in {1,2,64,512,4096}, u16/u32, q small enough to clip; after EVERY operation the registers are compared with a shadow model = position-wise max of cached single-item sketches of everything the sketcher has seen, get_low_sketch <= min register; refused merges must leave registers, low, overflow count and cardinality unchanged; final merges in two random orders + idempotence. SuperMinHash f32/f64: sketch == position-wise min of single-item sketches after every chunk. Distinct = (parameters, seed) histories; non-trivial when >= 2 operations were checked".into();
    let tuples: Vec<(P, bool)> = {
        let mut v = Vec::new();
        for &b in &[1.001, 1.05, 1.2, 2.0] {
            for &m in &[1u64, 2, 64, 512, 4096] {
                for &u16reg in &[true, false] {
                    // (a, q): documented choice, a small-q choice that clips at q+1, and a large q with tiny b that clips at u16::MAX
                    v.push((P { b, m, a: 20., q: 65534 }, u16reg));
                    v.push((P { b, m, a: 5., q: 12 }, u16reg));
                }
            }
        }
        v.push((P { b: 1.0001, m: 64, a: 20., q: 1_000_000 }, true));
        v.push((P { b: 1.0001, m: 64, a: 20., q: 1_000_000 }, false));
        v
    };
    let reps_per = rep.tier.pick(40u64, 1200u64);
    let seed = subseed(rep.seed, "C05/hist", &[]);
    let mut jobs = Vec::new();
    for (ti, (p, u16reg)) in tuples.iter().enumerate() {
        for r in 0..reps_per {
            if p.m >= 4096 && r >= reps_per.div_ceil(3) {
                continue;
            }
            jobs.push((ti, *p, *u16reg, r));
        }
    }
    let only = rep.only_cell.clone();
    let res: Vec<(usize, P, bool, u64, Result<Hist, String>)> = jobs
        .into_par_iter()
        .filter(|(ti, _, _, r)| only.as_ref().map(|c| c == &format!("hist{}/{}", ti, r) || c == "hist").unwrap_or(true))
        .map(|(ti, p, u16reg, r)| {
            let s = mix(&[seed, ti as u64, r]);
            let (len, maxitems) = if p.m >= 4096 { (25, 120) } else { (60, 400) };
            let h = if u16reg { catch(move || history::<u16>(p, s, len, maxitems)) } else { catch(move || history::<u32>(p, s, len, maxitems)) };
            (ti, p, u16reg, r, h)
        })
        .collect();
    for (ti, p, u16reg, r, h) in res {
        let cell = format!("hist{}/{}", ti, r);
        let case0 = json!({"b": p.b, "m": p.m, "a": p.a, "q": p.q, "registers": if u16reg { "u16" } else { "u32" }});
        match h {
            Ok(h) => {
                rep.evaluations += h.nops;
                rep.count("setsketch.histories", 1);
                if h.nops >= 2 {
                    rep.distinct.insert(mix(&[ti as u64, r, u16reg as u64]));
                }
                let case = json!({"params": case0, "first_ops": h.ops});
                if ti % 17 == 0 && r == 0 {
                    rep.sample(case.clone());
                }
                if let Some((k, w)) = h.fail {
                    rep.violation(&k, &cell, w, case);
                }
            }
            Err(pn) => rep.violation("C05/panic", &cell, format!("panic: {}", pn), case0),
        }
    }
    // SuperMinHash join
    if rep.want("smh") {
        let nj = rep.tier.pick(600u64, 20000u64);
        let seed = subseed(rep.seed, "C05/smh", &[]);
        let res: Vec<(u64, Result<(u64, Option<(String, String)>), String>, usize, usize)> = (0..nj)
            .into_par_iter()
            .map(|i| {
                let mut rng = rng_from(mix(&[seed, i]));
                let m = [1usize, 2, 7, 64, 300, 1000][rng.random_range(0..6)];
                let n = rng.random_range(1..if m >= 300 { 300 } else { 2000 });
                let s = mix(&[seed, i, 5]);
                let r = if i % 2 == 0 { catch(move || smh_join::<f32>(m, s, n)) } else { catch(move || smh_join::<f64>(m, s, n)) };
                (i, r, m, n)
            })
            .collect();
        for (i, r, m, n) in res {
            let case = json!({"sketcher": if i % 2 == 0 { "SuperMinHash<f32>" } else { "SuperMinHash<f64>" }, "m": m, "items": n});
            match r {
                Ok((nops, fail)) => {
                    rep.evaluations += nops;
                    rep.count("superminhash.join_checks", nops);
                    rep.distinct.insert(mix(&[i, m as u64, n as u64, 3]));
                    if i == 0 {
                        rep.sample(case.clone());
                    }
                    if let Some((k, w)) = fail {
                        rep.violation(&k, "smh", w, case);
                    }
                }
                Err(pn) => rep.violation("C05/panic", "smh", format!("panic: {}", pn), case),
            }
        }
    }
    // ---- SetSketcher::default() must be the sketcher of SetSketchParams::default() (differential, merges allowed both ways)
    if rep.want("default") {
        let seed = subseed(rep.seed, "C05/default", &[]);
        let nd = rep.tier.pick(24u64, 400u64);
        let fails: Vec<(u64, String)> = (0..nd)
            .into_par_iter()
            .filter_map(|i| {
                let mut rng = rng_from(mix(&[seed, i]));
                let n = [1usize, 3, 50, 3000, 20_000][(i % 5) as usize];
                let ids = fresh_ids(&mut rng, n, 0);
                let mut d = Sk::<u16>::default();
                let mut e = Sk::<u16>::new(SetSketchParams::default(), Default::default());
                d.sketch_slice(&ids).unwrap();
                for x in &ids {
                    e.sketch(x).unwrap();
                }
                let p = SetSketchParams::default();
                if p.get_m() != 4096 || p.get_b() != 1.001 || p.get_a() != 20. || p.get_q() != 65534 {
                    return Some((i, format!("SetSketchParams::default() is {:?}, documented m=4096, b=1.001, a=20, q=2^16-2", p)));
                }
                if observables(&d) != observables(&e) || d.get_b() != e.get_b() {
                    return Some((i, format!("SetSketcher::default() and SetSketcher::new(SetSketchParams::default()) differ after sketching {} items", n)));
                }
                let more = fresh_ids(&mut rng, 100, 0);
                let mut o = Sk::<u16>::new(SetSketchParams::default(), Default::default());
                o.sketch_slice(&more).unwrap();
                if d.merge(&o).is_err() || o.merge(&e).is_err() {
                    return Some((i, "merge between a default sketcher and a sketcher built from the default parameters is refused".to_string()));
                }
                e.sketch_slice(&more).unwrap();
                if regs(&d) != regs(&e) || regs(&o) != regs(&e) {
                    return Some((i, "default sketcher merged with a sketch differs from streaming everything".to_string()));
                }
                None
            })
            .collect();
        rep.evaluations += nd * 4;
        rep.count("default_vs_explicit.cases", nd);
        for i in 0..nd {
            rep.distinct.insert(mix(&[i, 0xDEF]));
        }
        for (i, w) in fails.into_iter().take(3) {
            rep.violation("C05/default-sketcher", "default", w, json!({"case": i}));
        }
    }
    // ---- targeted search (f32): items one of whose values sits exactly on an integer (r + j rounded to j + 1) would be
    // counted in the wrong level; pair each such item with many second items and compare with the join of singles
    if rep.want("smh-f32-boundary") {
        let seed = subseed(rep.seed, "C05/f32b", &[]);
        let nscan: u64 = rep.tier.pick(400_000, 4_000_000);
        for m in [16usize, 64, 128] {
            let found: Vec<u64> = (0..64u64)
                .into_par_iter()
                .flat_map_iter(|c| {
                    let mut rng = rng_from(mix(&[seed, m as u64, c]));
                    let mut out = Vec::new();
                    let mut s1 = SuperMinHash::<f32, u64, FnvHasher>::new(m, Default::default());
                    for _ in 0..nscan / 64 / 3 {
                        let d = fresh_ids(&mut rng, 1, 0)[0];
                        s1.reinit();
                        s1.sketch(&d).unwrap();
                        if s1.get_hsketch().iter().any(|v| v.fract() == 0. && *v >= 1.) {
                            out.push(d);
                        }
                    }
                    out
                })
                .collect();
            rep.evaluations += nscan / 3;
            rep.count("f32_boundary.items_scanned", nscan / 3);
            rep.count("f32_boundary.items_with_integral_value", found.len() as u64);
            for first in found.iter().take(40) {
                let mut rng = rng_from(mix(&[seed, *first]));
                let single = |d: u64| -> Vec<f32> {
                    let mut t = SuperMinHash::<f32, u64, FnvHasher>::new(m, Default::default());
                    t.sketch(&d).unwrap();
                    t.get_hsketch().clone()
                };
                let sf = single(*first);
                for _ in 0..3000 {
                    let second = fresh_ids(&mut rng, 1, 0)[0];
                    let mut t = SuperMinHash::<f32, u64, FnvHasher>::new(m, Default::default());
                    t.sketch(first).unwrap();
                    t.sketch(&second).unwrap();
                    let ss = single(second);
                    rep.evaluations += 1;
                    let bad = (0..m).find(|&p| t.get_hsketch()[p].to_bits() != sf[p].min(ss[p]).to_bits());
                    if let Some(p) = bad {
                        rep.violation("C05/smh-not-the-join", "smh-f32-boundary", format!("SuperMinHash<f32> m={}: sketch of [{}, {}] holds {} at position {} but the minimum over the two single-item sketches is {}", m, first, second, t.get_hsketch()[p], p, sf[p].min(ss[p])), json!({"m": m, "items": [first, second]}));
                        break;
                    }
                }
            }
        }
    }
    collect_ticks(rep);
    rep.assumptions.push("single-item sketches produced by the real code are the building blocks of the shadow model".into());
    rep.assumptions.push("a and b differing by less than 1e-12 relative are not judged: the code documents equality up to one relative f64::EPSILON".into());
}
