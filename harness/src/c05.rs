use crate::common::*;

pub fn run(rep: &mut Report) {
    let _ = rep;
    eprintln!("C05 not implemented yet");
}
