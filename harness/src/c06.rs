use crate::common::*;

pub fn run(rep: &mut Report) {
    let _ = rep;
    eprintln!("C06 not implemented yet");
}
pub fn child_par(_a: &[String]) -> i32 { 2 }
