//! C06 — SetSketch cardinality estimate is accurate and monotone; parallel estimator agrees
use crate::common::*;
use crate::gen::*;
use crate::sk::setsketch_a_q;
use crate::stat::*;
use fnv::FnvHasher;
use probminhash::setsketcher::{MleJaccard, SetSketchParams, SetSketcher};
use rand::Rng as _;
use rayon::prelude::*;
use serde_json::json;
use std::collections::BTreeSet;

fn rsd(b: f64, m: u64) -> f64 {
    (((b + 1.) / (b - 1.) * b.ln() - 1.) / m as f64).sqrt()
}

/// how the sketch of the n items is built
#[derive(Clone, Copy, Debug, PartialEq)]
enum Build {
    Stream,
    /// every item streamed, then half of them again
    Repeats,
    /// items split over three sketchers; a fourth one that only merges collects two of them and is merged into the third
    Merged,
    /// one sketcher used for an unrelated larger set first, then reinit
    Reused,
}

macro_rules! rel_error_body {
    ($t:ty, $params:expr, $n:expr, $build:expr, $rng:expr) => {{
        let ids = fresh_ids($rng, $n, 0);
        let mut s = SetSketcher::<$t, u64, FnvHasher>::new($params, Default::default());
        match $build {
            Build::Stream => s.sketch_slice(&ids).unwrap(),
            Build::Repeats => {
                s.sketch_slice(&ids).unwrap();
                for _ in 0..($n / 2 + 1) {
                    s.sketch(&ids[$rng.random_range(0..$n)]).unwrap();
                }
            }
            Build::Merged => {
                let c1 = $n / 3;
                let c2 = 2 * $n / 3;
                let mut s2 = SetSketcher::<$t, u64, FnvHasher>::new($params, Default::default());
                let mut s3 = SetSketcher::<$t, u64, FnvHasher>::new($params, Default::default());
                for x in &ids[..c1] {
                    s.sketch(x).unwrap();
                }
                for x in &ids[c1..c2] {
                    s2.sketch(x).unwrap();
                }
                for x in &ids[c2..] {
                    s3.sketch(x).unwrap();
                }
                // an accumulator that never sketches anything itself collects two parts and is merged into the third
                let mut acc = SetSketcher::<$t, u64, FnvHasher>::new($params, Default::default());
                acc.merge(&s2).unwrap();
                acc.merge(&s3).unwrap();
                s.merge(&acc).unwrap();
            }
            Build::Reused => {
                let m = $params.get_m() as usize;
                let mut junk = fresh_ids($rng, (30 * m).min(20_000) + 5, 0);
                // the last item before reinit is the first one after it
                junk.push(ids[0]);
                s.sketch_slice(&junk).unwrap();
                s.reinit();
                s.sketch_slice(&ids).unwrap();
            }
        }
        let (c, r) = s.get_cardinal_stats();
        (c / $n as f64 - 1., r)
    }};
}

fn rel_error<const U16: bool>(params: SetSketchParams, n: usize, build: Build, rng: &mut Rng) -> (f64, f64) {
    if U16 {
        rel_error_body!(u16, params, n, build, rng)
    } else {
        rel_error_body!(u32, params, n, build, rng)
    }
}

pub fn run(rep: &mut Report) {
    quiet_panics();
    rep.rule = "S: cell = (b, m, register type, n, repeats) with a and q chosen as documented (a >= ln(m/eps)/b, q >= log_b(m n a/eps), eps=1e-6); per trial n fresh random items are sketched by the real code and the relative error e = est/n - 1 recorded; staged tests: -2 rsd^2 <= E[e] <= 2 rsd^2, and for m >= 64 (0.85 rsd)^2 <= E[e^2] <= (1.15 rsd)^2; the advertised rsd returned by get_cardinal_stats is compared with the formula. E: after every sketch/merge of long random histories the estimate must not decrease; serial vs parallel estimator within 4 m 2^-52 relative. M: the parallel estimator under rayon pools of 1,2,3,5,16 threads, repeated; distinct floating point results recorded. Distinct = cells and histories; non-trivial when n >= 2".into();
    // ---------------- S part
    let t1: u64 = rep.tier.pick(3000, 30_000);
    // fixed bases plus seeded ones (a b-dependent branch with a threshold between two grid values would otherwise never run)
    let mut bs = vec![1.001, 1.2, 1.5, 2.0];
    {
        let mut r = rng_from(subseed(rep.seed, "C06/b", &[]));
        for _ in 0..rep.tier.pick(1, 4) {
            bs.push(((1. + 10f64.powf(r.random_range(-2.5..0.0))) * 1e4f64).round() / 1e4);
        }
    }
    let ms = [64u64, 100, 256, 4096];
    let ns: Vec<usize> = rep.tier.pick(vec![1, 10, 1000, 100_000], vec![1, 10, 1000, 100_000, 1_000_000, 4_000_000]);
    let mut ci = 0u64;
    let mut crng = rng_from(subseed(rep.seed, "C06/cells", &[]));
    for &b in &bs {
        for &m in &ms {
            for &n in &ns {
                ci += 1;
                let u16reg = ci % 2 == 0;
                let hsel = mix(&[ci, rep.seed, 0xC06]);
                let build = match hsel % 6 {
                    0 | 1 => Build::Stream,
                    2 => Build::Repeats,
                    3 => Build::Merged,
                    _ => if m <= 256 { Build::Reused } else { Build::Merged },
                };
                let build = if n < 3 && build == Build::Merged { Build::Stream } else { build };
                // quick: a seeded selection of the product, cost-bounded
                // cost model of one trial in register visits: the first ~5m items visit all m registers, later ones are pruned
                let mut cost = (n.min(5 * m as usize) as f64) * m as f64 + 30. * n as f64;
                if build == Build::Reused {
                    cost += 5. * (m as f64) * m as f64 + 30. * 20_000.;
                }
                let budget: f64 = rep.tier.pick(2.5e9, 2.5e10);
                let tt = ((budget / cost) as u64).clamp(200, t1);
                if rep.tier == Tier::Quick && n >= 100_000 && crng.random_range(0..3) != 0 {
                    continue;
                }
                let cell = format!("S/b={}/m={}/{}/n={}/{:?}", b, m, if u16reg { "u16" } else { "u32" }, n, build);
                if !rep.want(&cell) {
                    continue;
                }
                let (a, q) = setsketch_a_q(b, m, n as f64, 1e-6);
                // the documented choice is a lower bound: half of the cells use a non-integer rate above it
                let a = if (hsel >> 12) % 2 == 0 { a + 0.7 } else { a };
                if u16reg && q + 1 > 65535 {
                    continue;
                }
                let params = SetSketchParams::new(b, m, a, q);
                let r = rsd(b, m);
                let mut targets = vec![
                    Target::new("rel_error_upper", 2. * r * r, Kind::Upper),
                    Target::new("rel_error_lower", -2. * r * r, Kind::Lower),
                    Target::new("advertised_rsd_matches_formula", r, Kind::Info),
                ];
                if m >= 64 {
                    targets.push(Target::new("sq_rel_error_upper", (1.15 * r) * (1.15 * r), Kind::Upper));
                    targets.push(Target::new("sq_rel_error_lower", (0.85 * r) * (0.85 * r), Kind::Lower));
                }
                let nt = targets.len();
                let seed = subseed(rep.seed, "C06/S", &[ci]);
                let (rs, trials) = staged(seed, tt, 3, &targets, |rng, out| {
                    let (e, adv) = if u16reg { rel_error::<true>(params, n, build, rng) } else { rel_error::<false>(params, n, build, rng) };
                    out[0] = e;
                    out[1] = e;
                    out[2] = adv;
                    if nt > 3 {
                        out[3] = e * e;
                        out[4] = e * e;
                    }
                });
                // advertised rsd must be the formula (deterministic)
                let adv = rs[2].stages[0].1;
                if (adv - r).abs() > 1e-12 * r.max(1.) {
                    rep.violation("C06/advertised-rsd", &cell, format!("get_cardinal_stats reports rsd {} but ((b+1)/(b-1) ln b - 1)/m gives {}", adv, r), json!({"b": b, "m": m}));
                }
                let case = json!({"b": b, "m": m, "a": a, "q": q, "registers": if u16reg { "u16" } else { "u32" }, "n": n, "build": format!("{:?}", build), "advertised_rsd": r, "bias_allowance": 2. * r * r});
                if ci % 11 == 1 {
                    rep.sample(case.clone());
                }
                if n >= 2 {
                    rep.distinct.insert(mix(&[b.to_bits(), m, n as u64, u16reg as u64]));
                }
                record_cell(rep, "C06", &cell, &rs, trials, case);
            }
        }
    }
    // ---------------- E part: monotonicity + serial vs parallel after every step
    if rep.want("mono") {
        let nh = rep.tier.pick(200u64, 6000u64);
        let seed = subseed(rep.seed, "C06/mono", &[]);
        let res: Vec<Result<(u64, Option<(String, String)>, serde_json::Value), String>> = (0..nh)
            .into_par_iter()
            .map(|i| {
                catch(move || {
                    let mut rng = rng_from(mix(&[seed, i]));
                    let b = [1.001, 1.05, 1.2, 2.0][rng.random_range(0..4)];
                    let m = [1u64, 2, 16, 64, 256][rng.random_range(0..5)];
                    let (a, q) = if rng.random_range(0..3) == 0 { (5., 12) } else { setsketch_a_q(b, m, 1e5, 1e-6) };
                    let q = q.min(65534);
                    let params = SetSketchParams::new(b, m, a, q);
                    let mle = MleJaccard::new(b, m, a);
                    let mut s = SetSketcher::<u16, u64, FnvHasher>::new(params, Default::default());
                    let mut prev = s.get_cardinal_stats().0;
                    let steps = rng.random_range(50..400);
                    let pool = fresh_ids(&mut rng, 300, 0);
                    let case = json!({"b": b, "m": m, "a": a, "q": q, "steps": steps, "history": i});
                    let mut nops = 0;
                    for step in 0..steps {
                        if rng.random_range(0..10) == 0 {
                            let mut o = SetSketcher::<u16, u64, FnvHasher>::new(params, Default::default());
                            for _ in 0..rng.random_range(0..200) {
                                o.sketch(&fresh_ids(&mut rng, 1, 0)[0]).unwrap();
                            }
                            s.merge(&o).unwrap();
                        } else if rng.random_range(0..4) == 0 {
                            s.sketch(&pool[rng.random_range(0..pool.len())]).unwrap();
                        } else {
                            s.sketch(&fresh_ids(&mut rng, 1, 0)[0]).unwrap();
                        }
                        nops += 1;
                        let cur = s.get_cardinal_stats().0;
                        if !(cur >= prev) {
                            return (nops, Some(("C06/estimate-decreased".to_string(), format!("step {}: estimate went from {} to {} (b={}, m={}, a={}, q={})", step, prev, cur, b, m, a, q))), case);
                        }
                        prev = cur;
                        if step % 8 == 0 {
                            let par = mle.get_cardinal_estimate(s.get_signature());
                            let tol = 4. * m as f64 * f64::EPSILON * cur.abs();
                            if !((par - cur).abs() <= tol) {
                                return (nops, Some(("C06/parallel-estimator-disagrees".to_string(), format!("step {}: parallel estimate {} vs sketcher's own {} (tolerance {:e})", step, par, cur, tol))), case);
                            }
                        }
                    }
                    (nops, None, case)
                })
            })
            .collect();
        for (i, r) in res.into_iter().enumerate() {
            match r {
                Ok((nops, fail, case)) => {
                    rep.evaluations += nops;
                    rep.count("monotonicity.steps_checked", nops);
                    rep.distinct.insert(mix(&[i as u64, 4242]));
                    if i == 0 {
                        rep.sample(case.clone());
                    }
                    if let Some((k, w)) = fail {
                        rep.violation(&k, "mono", w, case);
                    }
                }
                Err(p) => rep.violation("C06/panic", "mono", format!("panic: {}", p), json!({"history": i})),
            }
        }
    }
    // ---------------- M part: schedules of the rayon reduction
    if rep.want("sched") {
        let seed = subseed(rep.seed, "C06/sched", &[]);
        let mut rng = rng_from(seed);
        let reps = rep.tier.pick(300, 5000);
        let mut sched_info = Vec::new();
        for (b, m, n) in [(1.001, 4096u64, 5000usize), (2.0, 4096, 100_000), (1.2, 256, 1000), (1.001, 65536, 50_000)] {
            let (a, q) = setsketch_a_q(b, m, n as f64, 1e-6);
            let params = SetSketchParams::new(b, m, a, q);
            let mut s = SetSketcher::<u32, u64, FnvHasher>::new(params, Default::default());
            s.sketch_slice(&fresh_ids(&mut rng, n, 0)).unwrap();
            let own = s.get_cardinal_stats().0;
            let mle = MleJaccard::new(b, m, a);
            let sig = s.get_signature().clone();
            let tol = 4. * m as f64 * f64::EPSILON * own.abs();
            let mut distinct: BTreeSet<u64> = BTreeSet::new();
            let mut per_threads = Vec::new();
            for nt in [1usize, 2, 3, 5, 16] {
                let pool = rayon::ThreadPoolBuilder::new().num_threads(nt).build().unwrap();
                let mut d: BTreeSet<u64> = BTreeSet::new();
                for _ in 0..reps {
                    let par = pool.install(|| mle.get_cardinal_estimate(&sig));
                    rep.evaluations += 1;
                    d.insert(par.to_bits());
                    if !((par - own).abs() <= tol) {
                        rep.violation("C06/parallel-estimator-disagrees", "sched", format!("{} threads: parallel estimate {} vs sketcher's own {} (tolerance {:e}; b={}, m={})", nt, par, own, tol, b, m), json!({"b": b, "m": m, "n": n, "threads": nt}));
                        break;
                    }
                }
                per_threads.push(json!({"threads": nt, "distinct_results": d.len()}));
                distinct.extend(d);
            }
            for x in &distinct {
                rep.distinct.insert(*x);
            }
            sched_info.push(json!({"b": b, "m": m, "n": n, "own_estimate": own, "distinct_parallel_results": distinct.len(), "max_rel_diff": distinct.iter().map(|x| ((f64::from_bits(*x) - own) / own).abs()).fold(0., f64::max), "per_pool": per_threads}));
        }
        rep.extra.insert("schedules_observed".into(), json!(sched_info));
    }
    collect_ticks(rep);
    rep.assumptions.push("the advertised relative standard deviation is sqrt(((b+1)/(b-1) ln b - 1)/m) as returned by get_cardinal_stats".into());
}

pub fn child_par(_a: &[String]) -> i32 {
    2
}
