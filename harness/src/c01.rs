//! C01 — ProbMinHash estimates the probability Jaccard index without bias (statistical law monitor)
use crate::common::*;
use crate::gen::*;
use crate::sk::*;
use crate::stat::*;
use probminhash::jaccard::compute_probminhash_jaccard;
use rand::Rng as _;
use rayon::prelude::*;
use serde_json::json;

struct Cell {
    name: String,
    v: Pv,
    hs: Hs,
    entry: Entry,
    /// entry point used for the second set of the pair (the property does not ask for the same container on both sides)
    entry_b: Entry,
    m: usize,
    spec: PairSpec,
}

fn entry_name(e: Entry) -> String {
    format!("{:?}", e)
}

fn entries_for(v: Pv) -> Vec<Entry> {
    match v {
        Pv::P2 => vec![Entry::Item, Entry::Wset, Entry::HashMapStd, Entry::Batches(3)],
        Pv::P3 => vec![Entry::Item, Entry::Wset, Entry::IdxMap, Entry::HashMapStd, Entry::Batches(4)],
        Pv::P3a | Pv::P3aSha => vec![Entry::IdxMap, Entry::HashMapStd, Entry::Batches(3)],
    }
}

fn build_cells(rep: &Report) -> Vec<Cell> {
    let mut cells = Vec::new();
    let mut rng = rng_from(subseed(rep.seed, "C01/cells", &[]));
    let ms_all: Vec<usize> = rep.tier.pick(vec![2, 3, 4, 8, 16, 64, 256, 1024], vec![2, 3, 4, 8, 16, 64, 256, 1024, 4096]);
    let ns: Vec<usize> = vec![2, 3, 10, 100, 500];
    // fixed core: every variant x a few decisive shapes
    let core: Vec<(&str, &str, usize, usize)> = vec![
        ("equal", "partial_same_w", 100, 64),
        ("geometric", "partial_diff_w", 10, 16),
        ("one_heavy", "nested", 10, 2),
        ("lognormal3", "partial_diff_w", 100, 256),
        ("tiny_huge_mix", "partial_same_w", 10, 3),
    ];
    for v in ALL_PV {
        for (k, (fam, ov, n, m)) in core.iter().enumerate() {
            if rep.tier == Tier::Quick && k >= 3 && v != Pv::P3 {
                continue;
            }
            let spec = pair(fam, ov, *n, &mut rng_from(subseed(1, "C01/core", &[k as u64])));
            let e = entries_for(v)[k % entries_for(v).len()];
            cells.push(Cell { name: format!("core/{}/{}/{}/m={}/{}", v.name(), "fnv", entry_name(e), m, spec.name), v, hs: Hs::Fnv, entry: e, entry_b: e, m: *m, spec });
        }
    }
    // seeded random selection from the product space
    let nrand = rep.tier.pick(120, 900);
    for i in 0..nrand {
        let v = ALL_PV[i % 4];
        let fam = WEIGHT_FAMILIES[rng.random_range(0..WEIGHT_FAMILIES.len())];
        let ov = OVERLAPS[rng.random_range(0..OVERLAPS.len())];
        let n = ns[rng.random_range(0..ns.len())].max(if ov == "identical" || ov == "scaled_copy" { 1 } else { 2 });
        let mut m = ms_all[rng.random_range(0..ms_all.len())];
        if n >= 500 && m > 1024 {
            m = 1024;
        }
        let hs = if v != Pv::P3aSha && rng.random_range(0..4) == 0 { Hs::NoHash } else { Hs::Fnv };
        let es = entries_for(v);
        let e = es[rng.random_range(0..es.len())];
        let spec = pair(fam, ov, n, &mut rng);
        let eb = if rng.random_range(0..3) == 0 { es[rng.random_range(0..es.len())] } else { e };
        cells.push(Cell { name: format!("rand{}/{}/{:?}/{}+{}/m={}/{}", i, v.name(), hs, entry_name(e), entry_name(eb), m, spec.name), v, hs, entry: e, entry_b: eb, m, spec });
    }
    // cells that exhibit the known finding C01/squared_error/pmh3-family-small-m in every run
    for v in [Pv::P3, Pv::P3a, Pv::P3aSha] {
        let spec = PairSpec { name: "two_items_ratio3/n=2".into(), wa: vec![1., 3.], wb: vec![3., 1.] };
        cells.push(Cell { name: format!("known/{}/m=2/two_items_ratio3", v.name()), v, hs: Hs::Fnv, entry: entries_for(v)[0], entry_b: entries_for(v)[0], m: 2, spec });
    }
    // single item sets (n = 1): identical singleton
    for v in ALL_PV {
        let spec = PairSpec { name: "singleton/identical/n=1".into(), wa: vec![3.5], wb: vec![3.5] };
        cells.push(Cell { name: format!("single/{}/m=8", v.name()), v, hs: Hs::Fnv, entry: entries_for(v)[0], entry_b: entries_for(v)[0], m: 8, spec });
    }
    // the two sets of a pair through different entry points of the same variant: few items and m larger than the set, so that every
    // stage of the algorithm contributes registers; the identical pair must collide everywhere, the partial one at rate J_P
    for v in ALL_PV {
        let es = entries_for(v);
        for (ia, ea) in es.iter().enumerate() {
            for (ib, eb) in es.iter().enumerate() {
                if ia == ib {
                    continue;
                }
                for (k, ov) in ["identical", "partial_diff_w"].iter().enumerate() {
                    if k == 1 && (ia + ib) % 2 == 0 && rep.tier == Tier::Quick {
                        continue;
                    }
                    let spec = pair("geometric", ov, 5, &mut rng_from(subseed(1, "C01/mixed", &[k as u64])));
                    cells.push(Cell { name: format!("mixed/{}/{}+{}/m=16/{}", v.name(), entry_name(*ea), entry_name(*eb), spec.name), v, hs: Hs::Fnv, entry: *ea, entry_b: *eb, m: 16, spec });
                }
            }
        }
    }
    cells
}

pub fn run(rep: &mut Report) {
    quiet_panics();
    rep.rule = "cell = (variant, hasher, entry point of each set (a third of the random cells and the mixed/ cells use two different ones), m, weighted set pair); per trial fresh random u64 identifiers are drawn for the union, both sets are sketched by the real code and the trial statistics are: collision fraction X (target J_P from the O(n^2) closed form), (X-J_P)^2 (bound J_P(1-J_P)/m, one-sided), fraction of positions of sig(A) holding the heaviest item / the lightest half of the items (targets w/sum w). Staged z-test per statistic (3.5 sigma -> fresh stage x10 -> 5.5 sigma). A cell is non-trivial when 0 < J_P < 1; distinct cells counted by digest of (variant, entry, m, weights)".into();
    let cells = build_cells(rep);
    let t1: u64 = rep.tier.pick(10_000, 100_000);
    for (ci, c) in cells.iter().enumerate() {
        if !rep.want(&c.name) {
            continue;
        }
        let n = c.spec.wa.len();
        let j = jp(&c.spec.wa, &c.spec.wb);
        let ia: Vec<usize> = (0..n).filter(|&i| c.spec.wa[i] > 0.).collect();
        let ib: Vec<usize> = (0..n).filter(|&i| c.spec.wb[i] > 0.).collect();
        let suma: f64 = ia.iter().map(|&i| c.spec.wa[i]).sum();
        // heaviest item of A and the lighter half of A (as a group)
        let heavy = *ia.iter().max_by(|&&x, &&y| c.spec.wa[x].partial_cmp(&c.spec.wa[y]).unwrap()).unwrap();
        let mut sorted = ia.clone();
        sorted.sort_by(|&x, &y| c.spec.wa[x].partial_cmp(&c.spec.wa[y]).unwrap());
        let light: Vec<usize> = sorted[..(sorted.len() / 2).max(1)].to_vec();
        let p_heavy = c.spec.wa[heavy] / suma;
        let p_light: f64 = light.iter().map(|&i| c.spec.wa[i]).sum::<f64>() / suma;
        // cost model of one trial (two sketches): every item is hashed, and about m (1 + ln(n)) points reach the registers
        let cost = 2. * (60. * n as f64 + 25. * c.m as f64 * (1. + (n as f64).ln()));
        let budget: f64 = rep.tier.pick(6e8, 1.2e10);
        let tt = ((budget / cost) as u64).clamp(2000, t1);
        let degenerate = j <= 1e-12 || j >= 1. - 1e-9;
        let jt = if j >= 1. - 1e-9 { 1. } else if j <= 1e-12 { 0. } else { j };
        // a statistic is tested only when enough non-degenerate trials are expected at stage 1 (else recorded only)
        let enough = |p: f64| (tt as f64) * (c.m as f64 * p.min(1. - p)).min(1.) >= 400.;
        let mut targets = vec![
            Target::new("collision_fraction", jt, if degenerate { Kind::Exact } else if enough(jt) { Kind::TwoSided } else { Kind::Info }),
            Target::new("squared_error", jt * (1. - jt) / c.m as f64, if degenerate { Kind::Exact } else if enough(jt) { Kind::Upper } else { Kind::Info }),
            Target::new("occupancy_heaviest", p_heavy, if ia.len() == 1 { Kind::Exact } else if enough(p_heavy) { Kind::TwoSided } else { Kind::Info }),
        ];
        let light_kind = if ia.len() > 1 && light.len() < ia.len() && enough(p_light) { Kind::TwoSided } else { Kind::Info };
        targets.push(Target::new("occupancy_light_half", p_light, light_kind));
        let ph = 0u64;
        let seed = subseed(rep.seed, "C01/trials", &[ci as u64]);
        let (rs, trials) = staged(seed, tt, 3, &targets, |rng, out| {
            let ids = fresh_ids(rng, n, ph);
            let mut a: Vec<(u64, f64)> = ia.iter().map(|&i| (ids[i], c.spec.wa[i])).collect();
            let mut b: Vec<(u64, f64)> = ib.iter().map(|&i| (ids[i], c.spec.wb[i])).collect();
            // insertion order is part of the trial randomness
            shuffle(&mut a, rng);
            shuffle(&mut b, rng);
            let (sa, _) = pmh(c.v, c.hs, c.m, &a, c.entry, ph);
            let (sb, _) = pmh(c.v, c.hs, c.m, &b, c.entry_b, ph);
            let x = compute_probminhash_jaccard(&sa, &sb);
            out[0] = x;
            out[1] = (x - jt) * (x - jt);
            let idh = ids[heavy];
            out[2] = sa.iter().filter(|&&s| s == idh).count() as f64 / c.m as f64;
            let mut lids: Vec<u64> = light.iter().map(|&i| ids[i]).collect();
            lids.sort_unstable();
            let cl = sa.iter().filter(|s| lids.binary_search(s).is_ok()).count();
            out[3] = cl as f64 / c.m as f64;
        });
        let case = json!({"variant": c.v.name(), "hasher": format!("{:?}", c.hs), "entry": entry_name(c.entry), "entry_second_set": entry_name(c.entry_b), "m": c.m, "pair": c.spec.name, "J_P": j,
            "wa": f64_json(&c.spec.wa[..n.min(12)]), "wb": f64_json(&c.spec.wb[..n.min(12)])});
        if ci < 3 {
            rep.sample(case.clone());
        }
        if !degenerate {
            rep.distinct.insert(mix(&[c.v as u64, c.m as u64, digest_f64s(&c.spec.wa), digest_f64s(&c.spec.wb), fnv64(entry_name(c.entry).as_bytes()), fnv64(entry_name(c.entry_b).as_bytes())]));
        }
        // known finding: variants 3 / 3a / 3a-Sha with m <= 3 exceed the MinHash bound J(1-J)/m on sets of few items with
        // unequal weights (up to ~21% at m=2, ~3.5% at m=3; inherent to one point per unit interval). Keyed on the input class
        // and capped: a larger excess, or any other cell, keeps the ordinary key.
        let mut rs = rs;
        if c.v != Pv::P2 && c.m <= 3 {
            let bound = jt * (1. - jt) / c.m as f64;
            for r in rs.iter_mut() {
                if r.name == "squared_error" && r.verdict == Verdict::Violated {
                    let last = r.stages.last().cloned().unwrap_or((0, 0., 0., 0.));
                    if last.1 <= 1.30 * bound {
                        rep.violation("C01/squared_error/pmh3-family-small-m", &c.name, format!("{} m={}: mean squared error {:.5e} exceeds J_P(1-J_P)/m = {:.5e} by {:.1}% (z {:.1}, T {})", c.v.name(), c.m, last.1, bound, 100. * (last.1 / bound - 1.), last.3, last.0), case.clone());
                        r.verdict = Verdict::Held;
                    }
                }
            }
        }
        record_cell(rep, "C01", &c.name, &rs, trials * 2, case);
    }
    // ---------------- register law: for a single item of weight w every register is Exp(w/m), independently per position
    // (this is what makes position p hold item d with probability w_d / sum(w) for every weight vector)
    for v in ALL_PV {
        for m in [2usize, 3, 8, 64, 1024] {
            let cell = format!("register_law/{}/m={}", v.name(), m);
            if !rep.want(&cell) {
                continue;
            }
            let nsamples: u64 = rep.tier.pick(1_500_000, 20_000_000);
            let mut n = nsamples;
            for stage in 1..=3u64 {
                let seed = subseed(rep.seed, &cell, &[stage]);
                let nsk = (n / m as u64).max(64);
                let mut us: Vec<f64> = (0..64u64)
                    .into_par_iter()
                    .flat_map_iter(|c| {
                        let mut rng = rng_from(mix(&[seed, c]));
                        let mut out = Vec::with_capacity((nsk / 64) as usize * m);
                        for _ in 0..nsk / 64 {
                            let id = fresh_ids(&mut rng, 1, 0)[0];
                            let w = 10f64.powf(rng.random_range(-3.0..3.0));
                            let (_s, reg) = pmh(v, Hs::Fnv, m, &[(id, w)], entries_for(v)[0], 0);
                            // variant 2: order statistics of m iid Exp(w/m); variants 3/3a/3aSha: one truncated-exponential point per unit
                            // interval and a geometric number of intervals until the slot is drawn: Exp(w * ln(m/(m-1)))
                            let rate = if v == Pv::P2 { w / m as f64 } else { w * (m as f64 / (m as f64 - 1.)).ln() };
                            for r in reg {
                                out.push(-(-r * rate).exp_m1());
                            }
                        }
                        out
                    })
                    .collect();
                rep.evaluations += us.len() as u64;
                us.sort_by(|a, b| a.partial_cmp(b).unwrap());
                let ks = ks_sqrtn_d(&us, |x| x.clamp(0., 1.));
                rep.cells.push(json!({"cell": cell, "stage": stage, "registers": us.len(), "ks_sqrtN_D": ks}));
                if stage == 1 {
                    rep.distinct.insert(mix(&[v as u64, m as u64, 0xE1]));
                }
                if stage == 1 && ks < 1.95 {
                    break;
                }
                if stage > 1 && ks >= 3.2 {
                    rep.violation("C01/register-law", &cell, format!("{} m={}: registers of single-item sketches do not follow the exponential law of the variant: sqrt(N)*D = {:.2} over {} registers (stage {})", v.name(), m, ks, us.len(), stage), json!({"variant": v.name(), "m": m}));
                    break;
                }
                if stage > 1 && ks < 1.95 {
                    break;
                }
                if stage == 3 {
                    rep.inconclusive.push(format!("cell={} KS stayed between thresholds ({:.2})", cell, ks));
                }
                n *= 4;
            }
        }
    }
    collect_ticks(rep);
    rep.assumptions.push("identifiers are fresh random u64 per trial, hashed by the crate's own hasher (Fnv / NoHash / Sha512_256); the sketchers are never re-seeded".into());
    rep.assumptions.push("resolution per cell (7 standard errors of the last stage) is printed in coverage.cells; a bias below it is invisible".into());
}

/// development probe: ratio MSE * m / (J (1-J)) for small m (prints a table)
pub fn child_mse(a: &[String]) -> i32 {
    let t: u64 = a.first().and_then(|s| s.parse().ok()).unwrap_or(2_000_000);
    let specs = vec![
        ("r2", vec![1., 2.], vec![2., 1.]),
        ("r3", vec![1., 3.], vec![3., 1.]),
        ("r4", vec![1., 4.], vec![4., 1.]),
        ("r7", vec![1., 7.], vec![7., 1.]),
        ("r10", vec![1., 10.], vec![10., 1.]),
        ("r3_3", vec![1., 3., 0.], vec![3., 1., 2.]),
        ("dis", vec![1., 4., 0.], vec![4., 0., 1.]),
    ];
    for (name, wa, wb) in specs {
        let j = jp(&wa, &wb);
        for v in ALL_PV {
            for m in [2usize, 3, 4, 8, 16, 64] {
                let n = wa.len();
                let targets = vec![Target::new("x", j, Kind::Info), Target::new("sq", 0., Kind::Info)];
                let (rs, _) = staged(mix(&[m as u64, v as u64, 77]), t, 1, &targets, |rng, out| {
                    let ids = fresh_ids(rng, n, 0);
                    let a: Vec<(u64, f64)> = (0..n).filter(|&i| wa[i] > 0.).map(|i| (ids[i], wa[i])).collect();
                    let b: Vec<(u64, f64)> = (0..n).filter(|&i| wb[i] > 0.).map(|i| (ids[i], wb[i])).collect();
                    let e = entries_for(v)[0];
                    let (sa, _) = pmh(v, Hs::Fnv, m, &a, e, 0);
                    let (sb, _) = pmh(v, Hs::Fnv, m, &b, e, 0);
                    let x = compute_probminhash_jaccard(&sa, &sb);
                    out[0] = x;
                    out[1] = (x - j) * (x - j);
                });
                let mse = rs[1].stages[0].1;
                let se = rs[1].stages[0].2;
                let bound = j * (1. - j) / m as f64;
                println!("{:8} {:9} m={:3} J={:.4} mean={:.5} MSE/bound={:.4} +-{:.4}", name, v.name(), m, j, rs[0].stages[0].1, mse / bound, se / bound);
            }
        }
    }
    0
}
