use crate::common::*;

pub fn run(rep: &mut Report) {
    let _ = rep;
    eprintln!("C01 not implemented yet");
}
