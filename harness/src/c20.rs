//! C20 — SetSketch parameters survive a dump/reload and a torn file is reported (fault enumeration)
use crate::common::*;
use probminhash::setsketcher::SetSketchParams;
use rand::Rng as _;
use rand::RngCore;
use serde_json::{json, Value};
use std::path::{Path, PathBuf};

fn scratch(tag: &str) -> PathBuf {
    let base = std::env::var("PMHV_VERIF_DIR").unwrap_or("/verif".into());
    let d = Path::new(&base).join("target").join("tmp").join(format!("c20-{}-{}", std::process::id(), tag));
    let _ = std::fs::remove_dir_all(&d);
    std::fs::create_dir_all(&d).expect("cannot create scratch directory");
    d
}

/// number of significant decimal digits of the shortest round-trip representation
fn sig_digits(x: f64) -> usize {
    let s = format!("{:e}", x);
    let mant = s.split('e').next().unwrap_or("");
    mant.chars().filter(|c| c.is_ascii_digit()).collect::<String>().trim_start_matches('0').trim_end_matches('0').len().max(1)
}

/// |x - y| <= one unit in the last place of x (the gap between x and the next larger double)
fn within_one_ulp(x: f64, y: f64) -> bool {
    if !x.is_finite() || !y.is_finite() {
        return false;
    }
    let up = f64::from_bits(x.abs().to_bits() + 1);
    let ulp = up - x.abs();
    (x - y).abs() <= ulp
}

fn gen_params(rng: &mut Rng, i: u64) -> (f64, u64, f64, u64) {
    let ints: [u64; 12] = [0, 1, 2, 4096, 65534, 65535, (1 << 32) - 1, 1 << 32, (1 << 32) + 1, (1 << 53) + 1, u64::MAX - 1, u64::MAX];
    let m = if i % 3 == 0 { ints[rng.random_range(0..ints.len())] } else { rng.next_u64() >> rng.random_range(0..64) };
    let q = if i % 4 == 0 { ints[rng.random_range(0..ints.len())] } else { rng.next_u64() >> rng.random_range(0..64) };
    let fl = |rng: &mut Rng, k: u64| -> f64 {
        match k % 8 {
            0 => [1.001, 1.1, 1.5, 2.0, 20., 0.5, 1.0001, 1e-3][rng.random_range(0..8)],
            1 => 1. + rng.random::<f64>(), // 16-17 significant digits
            2 => f64::from_bits(1f64.to_bits() + rng.random_range(1..5)), // next to 1
            3 => f64::from_bits(2f64.to_bits() - rng.random_range(0..5)), // next to 2
            4 => 2f64.powi(rng.random_range(-60..60)),
            5 => (rng.random_range(1..1_000_000u64) as f64) / 1000., // short decimals
            6 => f64::from_bits(rng.next_u64() & 0x7fef_ffff_ffff_ffff).max(f64::MIN_POSITIVE), // any positive finite
            _ => 10f64.powf(rng.random_range(-300.0..300.0)),
        }
    };
    let b = fl(rng, i);
    let a = fl(rng, i / 8 + 3);
    (b, m, a, q)
}

fn reload_outcome(dir: &Path) -> Result<Result<(f64, u64, f64, u64), String>, String> {
    let d = dir.to_path_buf();
    catch(move || SetSketchParams::reload_json(&d).map(|p| (p.get_b(), p.get_m(), p.get_a(), p.get_q())))
}

pub fn run(rep: &mut Report) {
    quiet_panics();
    rep.level = "fault_enumeration";
    rep.rule = "parameter tuples (b, m, a, q): m, q over {0,1,2^32±1,2^53+1,u64::MAX,...} and random widths; a, b from short decimals, 17 digit decimals, neighbours of 1 and 2, powers of two, arbitrary positive finite doubles. For each tuple: dump_json + reload_json must return m, q exactly and a, b exactly (<= 15 significant digits) or within 1 ulp; then EVERY proper prefix (0..len-1 bytes) of the written file is put in its place and reload_json is called under catch_unwind: it must return Err (Ok(..) or a panic is a violation); a missing file must give Err. Thorough adds real crashes: strace kills the dumping process inside its write to parameters.json and a fresh process reloads (tool leg). Distinct = distinct (tuple, cut offset) files reloaded; non-trivial: all".into();
    let ntuples: u64 = rep.tier.pick(300, 6000);
    let seed = subseed(rep.seed, "C20", &[]);
    let mut rng = rng_from(seed);
    let dir = scratch("main");
    let file = dir.join("parameters.json");
    let mut nprefix = 0u64;
    let mut exhaustive_files = 0u64;
    // missing file
    {
        let empty = scratch("missing");
        match reload_outcome(&empty) {
            Ok(Err(_)) => {}
            Ok(Ok(p)) => rep.violation("C20/missing-file-accepted", "missing", format!("reload_json on a directory without parameters.json returned {:?}", p), json!({})),
            Err(msg) => rep.violation("C20/missing-file-panics", "missing", format!("reload_json on a directory without parameters.json aborts: {}", msg), json!({})),
        }
        rep.evaluations += 1;
        let _ = std::fs::remove_dir_all(&empty);
    }
    for i in 0..ntuples {
        let cell = format!("tuple{}", i);
        let (b, m, a, q) = gen_params(&mut rng, i);
        if !rep.want(&cell) {
            continue;
        }
        let case = json!({"b": format!("{:e}", b), "m": m, "a": format!("{:e}", a), "q": q});
        let p = SetSketchParams::new(b, m, a, q);
        // the previous iteration leaves a (longer, damaged) parameters.json behind on purpose: a dump must replace it entirely.
        // Every third tuple additionally dumps a long-text tuple first.
        if i % 3 == 1 {
            let long = SetSketchParams::new(1.2345678901234567, u64::MAX - 3, 12.345678901234567, u64::MAX - 7);
            let d3 = dir.clone();
            let _ = catch(move || long.dump_json(&d3));
        }
        let d2 = dir.clone();
        match catch(move || p.dump_json(&d2)) {
            Ok(Ok(())) => {}
            other => {
                rep.violation("C20/dump-failed", &cell, format!("dump_json failed on a writable directory: {:?}", other), case.clone());
                continue;
            }
        }
        let bytes = std::fs::read(&file).unwrap_or_default();
        rep.evaluations += 1;
        if i < 3 {
            rep.sample(json!({"params": case, "file": String::from_utf8_lossy(&bytes)}));
        }
        // ---- round trip
        match reload_outcome(&dir) {
            Ok(Ok((b2, m2, a2, q2))) => {
                let okf = |x: f64, y: f64| x.to_bits() == y.to_bits() || (sig_digits(x) > 15 && within_one_ulp(x, y));
                if m2 != m || q2 != q || !okf(b, b2) || !okf(a, a2) {
                    rep.violation("C20/round-trip", &cell, format!("dump then reload returned (b={:e}, m={}, a={:e}, q={}) for (b={:e}, m={}, a={:e}, q={})", b2, m2, a2, q2, b, m, a, q), case.clone());
                }
            }
            Ok(Err(e)) => rep.violation("C20/round-trip", &cell, format!("reload of an intact dump failed: {}", e), case.clone()),
            Err(msg) => rep.violation("C20/round-trip", &cell, format!("reload of an intact dump aborts: {}", msg), case.clone()),
        }
        // ---- every proper prefix as the crash point
        let mut bad_ok = None;
        let mut bad_panic = None;
        for cut in 0..bytes.len() {
            std::fs::write(&file, &bytes[..cut]).unwrap();
            nprefix += 1;
            rep.distinct.insert(mix(&[i, cut as u64]));
            match reload_outcome(&dir) {
                Ok(Err(_)) => {}
                Ok(Ok(p2)) => {
                    if bad_ok.is_none() {
                        bad_ok = Some((cut, p2));
                    }
                }
                Err(msg) => {
                    if bad_panic.is_none() {
                        bad_panic = Some((cut, msg));
                    }
                }
            }
        }
        exhaustive_files += 1;
        if let Some((cut, p2)) = bad_ok {
            rep.violation("C20/torn-file-accepted", &cell, format!("file cut after {} of {} bytes is accepted and yields parameters {:?}", cut, bytes.len(), p2), json!({"params": case, "cut": cut, "file": String::from_utf8_lossy(&bytes)}));
        }
        if let Some((cut, msg)) = bad_panic {
            rep.violation("C20/torn-file-panics", &cell, format!("file cut after {} of {} bytes: reload_json aborts instead of returning Err: {}", cut, bytes.len(), msg), json!({"params": case, "cut": cut, "file": String::from_utf8_lossy(&bytes)}));
        }
        // ---- other damage: trailing garbage must not change the parameters silently (Err or same parameters)
        let mut longer = bytes.clone();
        longer.extend_from_slice(b"{\"b\":3");
        std::fs::write(&file, &longer).unwrap();
        nprefix += 1;
        match reload_outcome(&dir) {
            Ok(Ok((b2, m2, _, q2))) if b2.to_bits() != b.to_bits() || m2 != m || q2 != q => rep.violation("C20/torn-file-accepted", &cell, "a dump followed by the beginning of a second dump yields different parameters".into(), case.clone()),
            Err(msg) => rep.violation("C20/torn-file-panics", &cell, format!("dump followed by a partial second dump: reload_json aborts: {}", msg), case.clone()),
            _ => {}
        }
    }
    rep.evaluations += nprefix;
    rep.count("files_with_every_prefix_enumerated", exhaustive_files);
    rep.count("torn_files_reloaded", nprefix);
    rep.exhaustive = Some(false);
    rep.extra.insert("exhaustive_note".into(), json!("every byte prefix of every dumped file is enumerated (exhaustive per file); the parameter tuples themselves are sampled"));
    let _ = std::fs::remove_dir_all(&dir);
    rep.assumptions.push("a crash during dump_json leaves a prefix of the file: the file is written through one BufWriter in a truncating open".into());
}

/// child: dump the given parameters into a directory (used under strace fault injection)
pub fn child_dump(a: &[String]) -> i32 {
    if a.len() < 5 {
        return 2;
    }
    let dir = PathBuf::from(&a[0]);
    let b: f64 = a[1].parse().unwrap_or(1.001);
    let m: u64 = a[2].parse().unwrap_or(4096);
    let av: f64 = a[3].parse().unwrap_or(20.);
    let q: u64 = a[4].parse().unwrap_or(65534);
    match SetSketchParams::new(b, m, av, q).dump_json(&dir) {
        Ok(()) => {
            println!("DUMP OK");
            0
        }
        Err(e) => {
            println!("DUMP ERR {}", e);
            1
        }
    }
}

/// child: reload from a directory and print the outcome
pub fn child_reload(a: &[String]) -> i32 {
    quiet_panics();
    if a.is_empty() {
        return 2;
    }
    let dir = PathBuf::from(&a[0]);
    match reload_outcome(&dir) {
        Ok(Ok((b, m, av, q))) => println!("RELOAD OK {:e} {} {:e} {}", b, m, av, q),
        Ok(Err(e)) => println!("RELOAD ERR {}", e),
        Err(msg) => println!("RELOAD PANIC {}", msg.replace('\n', " ")),
    }
    0
}
