use crate::common::*;

pub fn run(rep: &mut Report) {
    let _ = rep;
    eprintln!("C20 not implemented yet");
}
pub fn child_dump(_a: &[String]) -> i32 { 2 }
pub fn child_reload(_a: &[String]) -> i32 { 2 }
