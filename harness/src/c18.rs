use crate::common::*;

pub fn run(rep: &mut Report) {
    let _ = rep;
    eprintln!("C18 not implemented yet");
}
pub fn child(_a: &[String]) -> i32 { 2 }
