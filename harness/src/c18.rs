//! C18 — byte identities of hashed objects are faithful and memory safe
//! The workload lives in `child`: it is run as a plain release child process (full size) by `run`, and by the
//! tool legs (Miri, AddressSanitizer, valgrind memcheck) of tools/legs.py at sizes suited to each tool.
use crate::common::*;
use indexmap::IndexMap;
use probminhash::probminhasher::sig::Sig;
use probminhash::probminhasher::ProbMinHash3aSha;
use rand::Rng as _;
use rand::RngCore;
use serde_json::json;

struct Tally {
    values: u64,
    bytes: u64,
    bad: Vec<String>,
    distinct: std::collections::HashSet<u64>,
}

fn check<T: Sig + std::fmt::Debug>(t: &mut Tally, ty: &str, x: &T, expect: Vec<u8>) {
    let got = x.get_sig();
    t.values += 1;
    t.bytes += expect.len() as u64;
    t.distinct.insert(mix(&[fnv64(ty.as_bytes()), fnv64(&expect)]));
    if got != expect {
        if t.bad.len() < 5 {
            let show = |v: &Vec<u8>| format!("len {} {:02x?}", v.len(), &v[..v.len().min(12)]);
            t.bad.push(format!("{}: get_sig gives {} but the native-endian bytes are {}", ty, show(&got), show(&expect)));
        }
    }
    // the returned vector is owned: dropping it and calling again must give the same bytes
    drop(got);
    let again = x.get_sig();
    if again != expect && t.bad.len() < 5 {
        t.bad.push(format!("{}: second call differs from the first", ty));
    }
}

fn vec_lens(rng: &mut Rng, n: usize, maxlen: usize) -> Vec<usize> {
    let mut v = vec![0usize, 1, 2, 3, 5, 7, 8, 9, 15, 16, 17, 31, 33];
    for _ in 0..n {
        v.push(rng.random_range(0..=maxlen.min(300)));
    }
    // powers of two and their neighbours (thresholds of size-dependent code paths)
    // (natively only: under Miri the two largest lengths below reach every 'large input' path and the cost is per byte)
    if !cfg!(miri) {
        for k in 6..=16 {
            let p = 1usize << k;
            v.extend_from_slice(&[p - 1, p, p + 1]);
        }
    }
    v.push(maxlen);
    v.push(maxlen.saturating_sub(1) | 1);
    v.retain(|l| *l <= maxlen);
    v
}

fn end_to_end<D: Clone + Eq + std::fmt::Debug + Sig + std::hash::Hash>(t: &mut Tally, ty: &str, keys: Vec<D>, placeholder: D, m: usize) {
    let mut map: IndexMap<D, f64> = IndexMap::new();
    for (i, k) in keys.iter().enumerate() {
        map.insert(k.clone(), 1. + i as f64);
    }
    let mut s = ProbMinHash3aSha::<D>::new(m, placeholder);
    s.hash_weigthed_idxmap(&map);
    let sig = s.get_signature().clone();
    t.values += 1;
    for (p, d) in sig.iter().enumerate() {
        if !map.contains_key(d) {
            if t.bad.len() < 5 {
                t.bad.push(format!("{}: ProbMinHash3aSha signature position {} holds {:?} which is not a key of the input", ty, p, d));
            }
            break;
        }
    }
    // same input, other instance: same signature
    let mut s2 = ProbMinHash3aSha::<D>::new(m, keys[0].clone());
    s2.hash_weigthed_idxmap(&map);
    if *s2.get_signature() != sig && t.bad.len() < 5 {
        t.bad.push(format!("{}: two ProbMinHash3aSha instances disagree on the same input", ty));
    }
}

/// args: seed, values per scalar type, vectors per vector type, max vector length, end-to-end m
pub fn child(a: &[String]) -> i32 {
    let seed: u64 = a.first().and_then(|s| s.parse().ok()).unwrap_or(1);
    let nscalar: usize = a.get(1).and_then(|s| s.parse().ok()).unwrap_or(100);
    let nvec: usize = a.get(2).and_then(|s| s.parse().ok()).unwrap_or(20);
    let maxlen: usize = a.get(3).and_then(|s| s.parse().ok()).unwrap_or(1000);
    let m: usize = a.get(4).and_then(|s| s.parse().ok()).unwrap_or(16);
    let mut rng = rng_from(mix(&[seed, 0xC18]));
    let mut t = Tally { values: 0, bytes: 0, bad: vec![], distinct: Default::default() };
    // scalars: structured + random
    let structured: [u64; 10] = [0, 1, 0xff, 0x100, 0x7fff, 0x8000, 0xffff_ffff, 0x8000_0000, u64::MAX, 0x0102_0304_0506_0708];
    for i in 0..nscalar + structured.len() {
        let w = if i < structured.len() { structured[i] } else { rng.next_u64() };
        check(&mut t, "u8", &(w as u8), vec![w as u8]);
        check(&mut t, "u16", &(w as u16), (w as u16).to_ne_bytes().to_vec());
        check(&mut t, "u32", &(w as u32), (w as u32).to_ne_bytes().to_vec());
        check(&mut t, "u64", &w, w.to_ne_bytes().to_vec());
        check(&mut t, "i16", &(w as i16), (w as i16).to_ne_bytes().to_vec());
        check(&mut t, "i32", &(w as i32), (w as i32).to_ne_bytes().to_vec());
    }
    // strings
    let alphabet: Vec<char> = "abcXYZ09 _-é€😀\u{0}\n漢".chars().collect();
    for l in vec_lens(&mut rng, nvec, maxlen.min(2000)) {
        let s: String = (0..l).map(|_| alphabet[rng.random_range(0..alphabet.len())]).collect();
        let e = s.as_bytes().to_vec();
        check(&mut t, "String", &s, e);
    }
    // vectors
    for l in vec_lens(&mut rng, nvec, maxlen) {
        let v8: Vec<u8> = (0..l).map(|_| rng.next_u32() as u8).collect();
        check(&mut t, "Vec<u8>", &v8, v8.clone());
        let v16: Vec<u16> = (0..l).map(|_| rng.next_u32() as u16).collect();
        let e16: Vec<u8> = v16.iter().flat_map(|x| x.to_ne_bytes()).collect();
        check(&mut t, "Vec<u16>", &v16, e16);
        let v32: Vec<u32> = (0..l).map(|_| rng.next_u32()).collect();
        let e32: Vec<u8> = v32.iter().flat_map(|x| x.to_ne_bytes()).collect();
        check(&mut t, "Vec<u32>", &v32, e32);
        // vectors with spare capacity and shrunk vectors (capacity != len)
        let mut w16: Vec<u16> = Vec::with_capacity(l + 7);
        w16.extend_from_slice(&v16);
        let ew: Vec<u8> = w16.iter().flat_map(|x| x.to_ne_bytes()).collect();
        check(&mut t, "Vec<u16> (spare capacity)", &w16, ew);
        let mut w32 = v32.clone();
        w32.truncate(l / 2);
        let ew: Vec<u8> = w32.iter().flat_map(|x| x.to_ne_bytes()).collect();
        check(&mut t, "Vec<u32> (truncated)", &w32, ew);
    }
    // different values give different bytes (injectivity on a sample): adjacent values of each width
    for w in [0u32, 1, 255, 256, 65535, 65536] {
        let a = vec![w, w + 1];
        let b = vec![w + 1, w];
        if a.get_sig() == b.get_sig() && t.bad.len() < 5 {
            t.bad.push(format!("Vec<u32>: {:?} and {:?} have the same byte identity", a, b));
        }
        t.values += 2;
    }
    // end to end through the Sha based sketcher
    let nk = 6.min(nscalar.max(2));
    end_to_end::<u64>(&mut t, "u64 keys", (0..nk).map(|_| rng.next_u64() | 1).collect(), 0, m);
    end_to_end::<u32>(&mut t, "u32 keys", (0..nk).map(|_| rng.next_u32() | 1).collect(), 0, m);
    end_to_end::<i32>(&mut t, "i32 keys", (0..nk).map(|i| -(i as i32) - 1).collect(), 0, m);
    end_to_end::<String>(&mut t, "String keys", (0..nk).map(|i| format!("key-{}-é", i)).collect(), String::new(), m);
    end_to_end::<Vec<u8>>(&mut t, "Vec<u8> keys", (0..nk).map(|i| vec![i as u8; i + 1]).collect(), vec![], m);
    end_to_end::<Vec<u16>>(&mut t, "Vec<u16> keys", (0..nk).map(|i| vec![i as u16 + 300; i + 1]).collect(), vec![], m);
    end_to_end::<Vec<u32>>(&mut t, "Vec<u32> keys", (0..nk).map(|i| vec![i as u32 + 70000; 2 * i + 1]).collect(), vec![], m);
    for b in &t.bad {
        println!("C18BAD {}", b);
    }
    println!("C18DONE values={} bytes={} distinct={} bad={}", t.values, t.bytes, t.distinct.len(), t.bad.len());
    if t.bad.is_empty() {
        0
    } else {
        3
    }
}

pub fn run(rep: &mut Report) {
    rep.rule = "values of u8/u16/u32/u64/i16/i32 (structured + random), String (multi-byte UTF-8, empty, NUL), Vec<u8>/Vec<u16>/Vec<u32> (lengths 0,1,2,3,odd,random, up to 1e6 elements, with spare capacity and truncated): get_sig must equal the harness-computed native-endian concatenation, twice in a row; ProbMinHash3aSha end to end over every key type (signature members are input keys, two instances agree). The workload runs in a child process (a memory error would abort it) and again under Miri / ASan / valgrind in the tool legs; any tool report, crash or byte mismatch is a violation. Distinct = distinct (type, byte string) pairs observed; non-trivial: all".into();
    let exe = std::env::current_exe().unwrap();
    let maxlen = rep.tier.pick(200_000, 1_000_000);
    let nchild = rep.tier.pick(4u64, 16u64);
    for c in 0..nchild {
        let seed = subseed(rep.seed, "C18/child", &[c]);
        let out = std::process::Command::new(&exe)
            .args(["child", "c18", &seed.to_string(), "2000", "60", &(if c == 0 { maxlen } else { 5000 }).to_string(), "64"])
            .env("RUST_BACKTRACE", "0")
            .stdout(std::process::Stdio::piped())
            .stderr(std::process::Stdio::piped())
            .output();
        match out {
            Ok(o) => {
                let text = String::from_utf8_lossy(&o.stdout).to_string();
                let err = String::from_utf8_lossy(&o.stderr).to_string();
                let mut done = false;
                for line in text.lines() {
                    if let Some(b) = line.strip_prefix("C18BAD ") {
                        let ty = b.split(':').next().unwrap_or("?").split(' ').next().unwrap_or("?");
                        rep.violation(&format!("C18/bytes/{}", ty), "release-child", b.to_string(), json!({"child_seed": seed}));
                    } else if let Some(d) = line.strip_prefix("C18DONE ") {
                        done = true;
                        for kv in d.split(' ') {
                            if let Some((k, v)) = kv.split_once('=') {
                                let v: u64 = v.parse().unwrap_or(0);
                                match k {
                                    "values" => rep.evaluations += v,
                                    "bytes" => rep.count("release_child.bytes_compared", v),
                                    "distinct" => {
                                        for i in 0..v {
                                            rep.distinct.insert(mix(&[seed, i]));
                                        }
                                    }
                                    _ => {}
                                }
                            }
                        }
                    }
                }
                if !done {
                    use std::os::unix::process::ExitStatusExt;
                    rep.violation(
                        "C18/crash",
                        "release-child",
                        format!("the byte-identity workload crashed: exit code {:?}, signal {:?}; stderr: {}", o.status.code(), o.status.signal(), err.lines().rev().take(3).collect::<Vec<_>>().join(" | ")),
                        json!({"child_seed": seed}),
                    );
                }
            }
            Err(e) => rep.inconclusive.push(format!("child process could not be run: {}", e)),
        }
    }
    let eb: Vec<u8> = [1u16, 2, 3].iter().flat_map(|x| x.to_ne_bytes()).collect();
    rep.sample(json!({"type": "Vec<u16>", "value": [1, 2, 3], "expected_bytes_native_endian": eb}));
    rep.sample(json!({"type": "String", "value": "é€", "expected_bytes": "é€".as_bytes()}));
    rep.assumptions.push("Miri / ASan / valgrind legs are appended by tools/legs.py (coverage.tool_legs)".into());
}
