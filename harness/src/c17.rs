//! C17 — the lazy shuffle yields uniform permutations and forgets history on reset
use crate::common::*;
use crate::stat::*;
use probminhash::fyshuffle::FYshuffle;
use rand::Rng as _;
use rand::RngCore;
use rayon::prelude::*;
use serde_json::json;

/// generator returning a fixed word forever (u64::MAX = top of the unit interval)
struct Const(u64);
impl RngCore for Const {
    fn next_u32(&mut self) -> u32 {
        (self.0 >> 32) as u32
    }
    fn next_u64(&mut self) -> u64 {
        self.0
    }
    fn fill_bytes(&mut self, dst: &mut [u8]) {
        for b in dst.iter_mut() {
            *b = (self.0 & 0xff) as u8;
        }
    }
}

fn is_perm(block: &[usize], m: usize, seen: &mut Vec<bool>) -> bool {
    seen.clear();
    seen.resize(m, false);
    for &v in block {
        if v >= m || seen[v] {
            return false;
        }
        seen[v] = true;
    }
    block.len() == m
}

/// exact checks for one size; returns description of the first failure
fn exact_checks(m: usize, seed: u64, blocks: usize) -> Result<u64, (String, String)> {
    let mut rng = rng_from(seed);
    let mut seen = Vec::new();
    let mut ndraws = 0u64;
    // (1) after reset, m draws are a permutation; without reset each further block is again a permutation
    let mut fy = FYshuffle::new(m);
    fy.reset();
    for b in 0..blocks {
        let block: Vec<usize> = (0..m).map(|_| fy.next(&mut rng)).collect();
        ndraws += m as u64;
        if !is_perm(&block, m, &mut seen) {
            return Err(("C17/not-a-permutation".into(), format!("m={} block {} after reset (no reset in between) is not a permutation of 0..m: {:?}", m, b, &block[..block.len().min(20)])));
        }
        // get_values after a full block holds the permutation just drawn
        let vals = fy.get_values();
        if vals[..] != block[..] {
            return Err(("C17/get-values".into(), format!("m={} get_values() after a full block differs from the draws", m)));
        }
    }
    // (2) a fresh shuffler (never reset explicitly) first block
    let mut fy2 = FYshuffle::new(m);
    let block: Vec<usize> = (0..m).map(|_| fy2.next(&mut rng)).collect();
    ndraws += m as u64;
    if !is_perm(&block, m, &mut seen) {
        return Err(("C17/not-a-permutation".into(), format!("m={} first block of a new shuffler is not a permutation", m)));
    }
    // (3) history independence: k arbitrary draws, reset, then the same generator stream as a fresh one
    for trial in 0..3 {
        let k = match trial {
            0 => rng.random_range(0..=m),
            1 => rng.random_range(0..=3 * m),
            _ => (m / 2).max(1),
        };
        let mut used = FYshuffle::new(m);
        used.reset();
        for _ in 0..k {
            used.next(&mut rng);
        }
        used.reset();
        let mut fresh = FYshuffle::new(m);
        fresh.reset();
        let s = rng.next_u64();
        let mut g1 = rng_from(s);
        let mut g2 = rng_from(s);
        let ndr = m + m / 2 + 1;
        for i in 0..ndr {
            let a = used.next(&mut g1);
            let b = fresh.next(&mut g2);
            ndraws += 2;
            if a != b {
                return Err(("C17/history-dependence".into(), format!("m={} : after {} draws and reset, draw {} is {} but a fresh shuffler fed the same generator stream gives {}", m, k, i, a, b)));
            }
        }
    }
    // (4) top of the unit interval: the largest uniform at every step
    for w in [u64::MAX, u64::MAX - 1, !0u64 << 11, 0] {
        let mut fy3 = FYshuffle::new(m);
        fy3.reset();
        let mut c = Const(w);
        let block: Vec<usize> = (0..m.min(5000)).map(|_| fy3.next(&mut c)).collect();
        ndraws += block.len() as u64;
        if block.iter().any(|&v| v >= m) {
            return Err(("C17/index-range".into(), format!("m={} generator word {:#x}: index out of range", m, w)));
        }
        if m <= 5000 && !is_perm(&block, m, &mut seen) {
            return Err(("C17/not-a-permutation".into(), format!("m={} constant generator word {:#x}: not a permutation", m, w)));
        }
    }
    Ok(ndraws)
}

fn factorial(m: usize) -> usize {
    (1..=m).product()
}

fn perm_index(p: &[usize]) -> usize {
    // Lehmer code
    let m = p.len();
    let mut idx = 0;
    for i in 0..m {
        let smaller = p[i + 1..].iter().filter(|&&x| x < p[i]).count();
        idx = idx * (m - i) + smaller;
    }
    idx
}

pub fn run(rep: &mut Report) {
    quiet_panics();
    rep.rule = "exact: for every m in 1..=300 and random m up to 2^20 (2^22 thorough): blocks of m draws after reset and without reset are permutations; paired runs (k arbitrary draws + reset vs fresh) on the same generator stream give identical draws; constant generators at the top/bottom of the unit interval keep the index in range. long: one instance per m in {2,3,5,8,16,64,257} goes through 1.4e5 (thorough 1.2e6) (draws, reset) cycles, every cycle compared draw by draw with a new shuffler on the same generator stream. statistical: all m! orders for m in 2..=5 (chi-square), position x value table for m in {8,32}, first draw for m=1000, each both right after reset and for the lazily wrapped second block. A case is (m, seed) for exact legs and (m, order) cells for the statistical ones; non-trivial when m >= 2".into();
    // ---------------- exact
    if rep.want("exact") {
        let seed = subseed(rep.seed, "C17/exact", &[]);
        let mut ms: Vec<usize> = (1..=300).collect();
        let mut rng = rng_from(seed);
        let nbig = rep.tier.pick(12, 60);
        let maxlog = rep.tier.pick(20, 22);
        for _ in 0..nbig {
            let lg = rng.random_range(9..=maxlog);
            ms.push(rng.random_range((1usize << (lg - 1))..=(1usize << lg)));
        }
        ms.extend_from_slice(&[1 << 16, (1 << 16) + 1, (1 << 20) + 3]);
        let reps = rep.tier.pick(3u64, 40u64);
        let res: Vec<(usize, Result<u64, (String, String)>)> = ms
            .par_iter()
            .flat_map_iter(|&m| {
                let r = if m > 100_000 { 1 } else { reps };
                (0..r).map(move |i| (m, catch(|| exact_checks(m, mix(&[seed, m as u64, i]), if m > 100_000 { 2 } else { 4 })).unwrap_or_else(|p| Err(("C17/panic".into(), format!("m={} panic: {}", m, p))))))
            })
            .collect();
        for (i, (m, r)) in res.into_iter().enumerate() {
            rep.evaluations += 1;
            if m >= 2 {
                rep.distinct.insert(mix(&[m as u64, i as u64]));
            }
            match r {
                Ok(nd) => rep.count("exact.draws_checked", nd),
                Err((key, what)) => rep.violation(&key, "exact", what, json!({"m": m})),
            }
        }
        collect_ticks(rep);
        let ex: Vec<usize> = {
            let mut fy = FYshuffle::new(5);
            fy.reset();
            let mut g = rng_from(seed);
            (0..5).map(|_| fy.next(&mut g)).collect()
        };
        rep.sample(json!({"leg": "exact", "m": 5, "first_block_example": ex}));
    }
    // ---------------- long histories: one instance goes through several hundred thousand (draws, reset) cycles; after every reset
    // its draws are compared with those of a new shuffler fed the same generator stream
    if rep.want("long") {
        let seed = subseed(rep.seed, "C17/long", &[]);
        let ncycles: usize = rep.tier.pick(140_000, 1_200_000);
        let ms = [2usize, 3, 5, 8, 16, 64, 257];
        let res: Vec<(usize, Result<u64, (String, String)>)> = ms
            .par_iter()
            .map(|&m| {
                (m, catch(move || {
                    let mut rng = rng_from(mix(&[seed, m as u64]));
                    let mut used = FYshuffle::new(m);
                    let mut nd = 0u64;
                    for cycle in 0..ncycles {
                        used.reset();
                        let mut fresh = FYshuffle::new(m);
                        let s = rng.next_u64();
                        let mut g1 = rng_from(s);
                        let mut g2 = rng_from(s);
                        // mostly a few draws (as the sketchers do), sometimes a full block and more
                        let k = match rng.random_range(0..8) {
                            0 => m,
                            1 => m + 1 + rng.random_range(0..m),
                            2 => 0,
                            _ => rng.random_range(1..=m.min(4)),
                        };
                        for i in 0..k {
                            let a = used.next(&mut g1);
                            let b = fresh.next(&mut g2);
                            nd += 2;
                            if a != b {
                                return Err(("C17/history-dependence".to_string(), format!("m={} : after {} (draws, reset) cycles on one instance, draw {} after the reset is {} but a new shuffler fed the same generator stream gives {}", m, cycle, i, a, b)));
                            }
                        }
                    }
                    Ok(nd)
                }).unwrap_or_else(|p| Err(("C17/panic".into(), format!("m={} panic: {}", m, p)))))
            })
            .collect();
        for (m, r) in res {
            rep.evaluations += ncycles as u64;
            rep.distinct.insert(mix(&[m as u64, 0x10a6]));
            match r {
                Ok(nd) => {
                    rep.count("long.draws_checked", nd);
                    rep.count("long.reset_cycles", ncycles as u64);
                }
                Err((key, what)) => rep.violation(&key, "long", what, json!({"m": m})),
            }
        }
    }
    // ---------------- statistical
    if rep.want("stat") {
        let n: u64 = rep.tier.pick(400_000, 4_000_000);
        for m in [2usize, 3, 4, 5] {
            for mode in ["after_reset", "lazy_second_block"] {
                let cell = format!("orders/m={}/{}", m, mode);
                let nf = factorial(m);
                let mut stage = 0;
                let mut nn = n;
                loop {
                    stage += 1;
                    let seed = subseed(rep.seed, &cell, &[stage]);
                    let counts = (0..256u64)
                        .into_par_iter()
                        .map(|c| {
                            let mut rng = rng_from(mix(&[seed, c]));
                            let mut fy = FYshuffle::new(m);
                            let mut cnt = vec![0u64; nf];
                            let mut p = vec![0usize; m];
                            for _ in 0..nn / 256 {
                                if mode == "after_reset" {
                                    fy.reset();
                                } else {
                                    fy.reset();
                                    for _ in 0..m {
                                        fy.next(&mut rng);
                                    }
                                }
                                for i in 0..m {
                                    p[i] = fy.next(&mut rng);
                                }
                                cnt[perm_index(&p)] += 1;
                            }
                            cnt
                        })
                        .reduce(|| vec![0u64; nf], |mut a, b| {
                            for i in 0..nf {
                                a[i] += b[i];
                            }
                            a
                        });
                    let tot: u64 = counts.iter().sum();
                    rep.evaluations += tot;
                    let exp = vec![tot as f64 / nf as f64; nf];
                    let x = chi2(&counts, &exp);
                    let z = chi2_z(x, (nf - 1) as f64);
                    rep.cells.push(json!({"cell": cell, "stage": stage, "perms_drawn": tot, "orders": nf, "orders_seen": counts.iter().filter(|&&c| c > 0).count(), "chi2": x, "z": z}));
                    for (i, c) in counts.iter().enumerate() {
                        if *c > 0 {
                            rep.distinct.insert(mix(&[m as u64, i as u64, 17]));
                        }
                    }
                    if stage == 1 && z < 3.5 {
                        break;
                    }
                    if stage > 1 && z >= 5.5 {
                        rep.violation("C17/non-uniform-orders", &cell, format!("m={} {}: chi2({})={:.1} z={:.1} over {} permutations", m, mode, nf - 1, x, z, tot), json!({"m": m, "mode": mode, "counts": counts}));
                        break;
                    }
                    if stage > 1 && z < 3.5 {
                        break;
                    }
                    if stage >= 3 {
                        rep.inconclusive.push(format!("cell={} z={:.1}", cell, z));
                        break;
                    }
                    nn *= 8;
                }
            }
        }
        // position x value tables
        for (m, mode) in [(8usize, "after_reset"), (32, "after_reset"), (8, "lazy_second_block"), (1000, "first_draw")] {
            let cell = format!("table/m={}/{}", m, mode);
            let mut stage = 0;
            let mut nn = n / 2;
            loop {
                stage += 1;
                let seed = subseed(rep.seed, &cell, &[stage]);
                let npos = if mode == "first_draw" { 1 } else { m };
                let counts = (0..256u64)
                    .into_par_iter()
                    .map(|c| {
                        let mut rng = rng_from(mix(&[seed, c]));
                        let mut fy = FYshuffle::new(m);
                        let mut cnt = vec![0u64; npos * m];
                        for _ in 0..nn / 256 {
                            fy.reset();
                            if mode == "lazy_second_block" {
                                for _ in 0..m {
                                    fy.next(&mut rng);
                                }
                            }
                            for i in 0..npos {
                                let v = fy.next(&mut rng);
                                cnt[i * m + v] += 1;
                            }
                        }
                        cnt
                    })
                    .reduce(|| vec![0u64; npos * m], |mut a, b| {
                        for i in 0..a.len() {
                            a[i] += b[i];
                        }
                        a
                    });
                let nper = nn / 256 * 256;
                rep.evaluations += nper;
                let exp = vec![nper as f64 / m as f64; npos * m];
                let mut x = chi2(&counts, &exp);
                // single row : multinomial, m-1 degrees of freedom. Full table of N uniform permutations: the centred
                // indicator matrix lives in the (m-1)^2 dimensional irreducible subspace with isotropic covariance and
                // E[X2] = m(m-1), i.e. X2 * (m-1)/m ~ chi2((m-1)^2)
                if npos > 1 {
                    x *= (m - 1) as f64 / m as f64;
                }
                let df = if npos == 1 { (m - 1) as f64 } else { ((m - 1) * (m - 1)) as f64 };
                let z = chi2_z(x, df);
                rep.cells.push(json!({"cell": cell, "stage": stage, "perms_drawn": nper, "chi2": x, "df": df, "z": z}));
                if stage == 1 && z < 3.5 {
                    break;
                }
                if stage > 1 && z >= 5.5 {
                    rep.violation("C17/non-uniform-table", &cell, format!("m={} {}: chi2({})={:.1} z={:.1}", m, mode, df, x, z), json!({"m": m, "mode": mode}));
                    break;
                }
                if stage > 1 && z < 3.5 {
                    break;
                }
                if stage >= 3 {
                    rep.inconclusive.push(format!("cell={} z={:.1}", cell, z));
                    break;
                }
                nn *= 8;
            }
        }
        // very large sizes: the first draw after a reset is lastidx + floor(u m); its residues mod 6 must be uniform
        // (a generator word mapped to too few distinct fractions, e.g. single precision, shows here and only here)
        for m in [3usize << 22, 1usize << 24] {
            let cell = format!("large_m_first_draw_residues/m={}", m);
            let seed = subseed(rep.seed, &cell, &[]);
            chi2_staged(rep, &cell, "C17/non-uniform-large-m", seed, rep.tier.pick(640, 6400), json!({"m": m}), |s, n| {
                let counts = (0..16u64)
                    .into_par_iter()
                    .map(|c| {
                        let mut rng = rng_from(mix(&[s, c]));
                        let mut fy = FYshuffle::new(m);
                        let mut cnt = vec![0u64; 6];
                        for _ in 0..n / 16 {
                            fy.reset();
                            cnt[fy.next(&mut rng) % 6] += 1;
                        }
                        cnt
                    })
                    .reduce(|| vec![0u64; 6], |mut a, b| {
                        for i in 0..6 {
                            a[i] += b[i];
                        }
                        a
                    });
                let tot: u64 = counts.iter().sum();
                (counts, vec![tot as f64 / 6.; 6], 5., 1.)
            });
        }
        rep.sample(json!({"leg": "stat", "m": 4, "note": "24 orders counted over the draws, chi-square against equiprobability"}));
    }
    rep.assumptions.push("Xoshiro256++ is taken as a uniform source for the uniformity clause".into());
}
