//! C08 — densified one-permutation hashing is an unbiased Jaccard LSH at any fill ratio
use crate::common::*;
use crate::gen::*;
use crate::sk::*;
use crate::stat::*;
use rand::Rng as _;
use serde_json::json;

pub fn run(rep: &mut Report) {
    quiet_panics();
    rep.rule = "cell = (algorithm Opt/RevOpt, float type and hasher (FNV; f64 also with the pass-through hasher on items that include 0 and MAX), set shape, sketch size m = ratio x |A∪B| with ratio from 1/100 to 1000, seeded ratios in between, and sketches of ~35000 positions for sets of ~70000 items); per trial fresh random items, A sketched through sketch_slice and B item-wise + end_sketch by the real code; statistics: fraction of equal positions in the float, u64 and u32 views, target J for each (staged z-test on the empirical trial variance; J in {0,1} exact). Distinct = cells; non-trivial: 0<J<1".into();
    // (a_only, b_only, both)
    let shapes: Vec<(&str, usize, usize, usize)> = vec![("third", 2, 2, 2), ("half", 1, 1, 2), ("j09", 1, 1, 18), ("j005", 10, 9, 1), ("disjoint", 3, 4, 0), ("identical", 0, 0, 5), ("nested", 0, 4, 2), ("singletons", 1, 0, 1)];
    let mut ratios: Vec<(String, f64)> = [("1/100", 0.01), ("1/10", 0.1), ("1", 1.), ("10", 10.), ("100", 100.), ("1000", 1000.)].iter().map(|(n, r)| (n.to_string(), *r)).collect();
    // seeded ratios between the decades (a fill-dependent branch with a threshold between two grid values would otherwise never run)
    {
        let mut r = rng_from(subseed(rep.seed, "C08/ratios", &[]));
        for _ in 0..rep.tier.pick(2, 8) {
            let x = (10f64.powf(r.random_range(-1.7..2.5)) * 100.).round() / 100.;
            ratios.push((format!("{}", x), x));
        }
    }
    // large sketches with sets larger than the sketch (several items per bin, sketch size above 2^15): the resolution of the
    // float values inside a bin matters there
    ratios.push(("1/2@large".to_string(), 0.5));
    let kinds = [UKind::OptF32, UKind::OptF64, UKind::RevF32, UKind::RevF64, UKind::OptF64NoHash, UKind::RevF64NoHash];
    let t1: u64 = rep.tier.pick(4000, 50_000);
    let mut ci = 0u64;
    for kind in kinds {
        for (rname, ratio) in &ratios {
            for (si, (sname, ao, bo, both)) in shapes.iter().enumerate() {
                ci += 1;
                let hsel = mix(&[ci, rep.seed, 0xC08]);
                let large = rname.ends_with("@large");
                if large && (!matches!(kind, UKind::OptF32 | UKind::OptF64) || !(*sname == "third" || *sname == "disjoint") || (kind == UKind::OptF64 && rep.tier == Tier::Quick)) {
                    continue;
                }
                if rep.tier == Tier::Quick && hsel % 3 != 0 && !large {
                    continue;
                }
                // scale the shape so that the sketch size is reasonable: union size U, m = ratio * U
                let base = ao + bo + both;
                let scale = if large { 70_000 / base } else if *ratio < 1. { ((20. / ratio) / base as f64).ceil() as usize } else { 1 };
                let (ao, bo, both) = (ao * scale, bo * scale, both * scale);
                let u = ao + bo + both;
                let mut m = ((u as f64) * ratio).round().max(1.) as usize;
                let is_rev = kind.is_rev();
                if is_rev && m > rep.tier.pick(1000, 6000) {
                    m = rep.tier.pick(1000, 6000);
                }
                let reuse = (hsel >> 16) % 2 == 0;
                let cell = format!("{}/ratio={}/{}/m={}{}", kind.name(), rname, sname, m, if reuse { "/reused" } else { "" });
                if !rep.want(&cell) {
                    continue;
                }
                let j = both as f64 / u as f64;
                let degenerate = j == 0. || j == 1.;
                let cost = (u + m * if is_rev { 40 } else { 4 }) as f64;
                let budget: f64 = rep.tier.pick(1.5e8, 2.5e9);
                let tt = ((budget / cost) as u64).clamp(400, t1);
                let kindt = if degenerate { Kind::Exact } else { Kind::TwoSided };
                // disjoint sets: the u64 view holds item hashes (exactly 0 collisions); two different items can legitimately draw the
                // same float r in a bin, and the 32-bit rehash of two different hashes can collide (2^-32): small allowances there
                let f32kind = matches!(kind, UKind::OptF32 | UKind::RevF32);
                let targets = if j == 0. {
                    vec![Target::new("float_view", if f32kind { 1e-4 } else { 1e-9 }, Kind::Upper), Target::new("u64_view", 0., Kind::Exact), Target::new("u32_view", 1e-6, Kind::Upper)]
                } else {
                    vec![Target::new("float_view", j, kindt), Target::new("u64_view", j, kindt), Target::new("u32_view", j, kindt)]
                };
                let seed = subseed(rep.seed, "C08", &[ci]);
                let (rs, trials) = staged(seed, tt, 3, &targets, |rng, out| {
                    // pass-through hasher kinds: the items are their own hashes, values with a special role (0, MAX) included
                    let ids = if kind.is_nohash() { let mut v = ids_with_specials(rng, u); shuffle(&mut v, rng); v } else { fresh_ids(rng, u, 0) };
                    let mut a: Vec<u64> = ids[..ao].to_vec();
                    a.extend_from_slice(&ids[ao + bo..]);
                    let mut b: Vec<u64> = ids[ao..].to_vec();
                    shuffle(&mut a, rng);
                    shuffle(&mut b, rng);
                    // half of the trials stream the sets with repeated items (right away, and spread)
                    if rng.random_range(0..2) == 0 && !a.is_empty() && !b.is_empty() {
                        for i in 0..a.len().min(200) / 3 + 1 {
                            let x = a[i];
                            a.insert(i + 1, x);
                        }
                        for _ in 0..b.len().min(200) / 3 + 1 {
                            let x = b[rng.random_range(0..b.len())];
                            let p = rng.random_range(0..=b.len());
                            b.insert(p, x);
                        }
                    }
                    let (ba, bb) = if reuse {
                        let mut sk = make_usk(kind, m);
                        let njunk = if rng.random_range(0..2) == 0 { 2 * m + 5 } else { 1 };
                        // every stream starts with the item the previous one ended with (state kept across reinit would show)
                        let mut junk = fresh_ids(rng, njunk, 0);
                        if let Some(f) = a.first() {
                            junk.push(*f);
                        }
                        sk.sketch_slice(&junk);
                        sk.reinit();
                        sk.sketch_slice(&a);
                        let ba = sk.bits();
                        sk.reinit();
                        if let Some(last) = a.last() {
                            if let Some(p) = b.iter().position(|x| x == last) {
                                b.swap(0, p);
                            }
                        }
                        for x in &b {
                            sk.sketch(*x);
                        }
                        sk.finish();
                        (ba, sk.bits())
                    } else {
                        let mut ska = make_usk(kind, m);
                        ska.sketch_slice(&a);
                        let mut skb = make_usk(kind, m);
                        for x in &b {
                            skb.sketch(*x);
                        }
                        skb.finish();
                        (ska.bits(), skb.bits())
                    };
                    for v in 0..3 {
                        let eq = (0..m).filter(|&p| ba[v * m + p] == bb[v * m + p]).count();
                        out[v] = eq as f64 / m as f64;
                    }
                });
                let case = json!({"kind": kind.name(), "m": m, "ratio_m_over_union": rname, "a_only": ao, "b_only": bo, "both": both, "J": j});
                if ci % 17 == 1 {
                    rep.sample(case.clone());
                }
                if !degenerate {
                    rep.distinct.insert(mix(&[fnv64(kind.name().as_bytes()), m as u64, si as u64, u as u64]));
                }
                record_cell(rep, "C08", &cell, &rs, trials * 2, case);
            }
        }
    }
    // ---- identical huge sets streamed in two different orders into tiny f32 sketches: J = 1 must be met exactly in every view
    // (with ~n/2^23 probability two items tie on the minimal r of a bin; the winner must not depend on order)
    for kind in [UKind::OptF32, UKind::RevF32] {
        let cell = format!("{}/identical_huge/m=1", kind.name());
        if !rep.want(&cell) {
            continue;
        }
        let n = rep.tier.pick(300_000usize, 600_000usize);
        let tt: u64 = rep.tier.pick(128, 1024);
        let targets = vec![Target::new("float_view", 1., Kind::Exact), Target::new("u64_view", 1., Kind::Exact), Target::new("u32_view", 1., Kind::Exact)];
        let seed = subseed(rep.seed, &cell, &[]);
        let (rs, trials) = staged(seed, tt, 1, &targets, |rng, out| {
            let a = fresh_ids(rng, n, 0);
            let mut ska = make_usk(kind, 1);
            ska.sketch_slice(&a);
            let mut skb = make_usk(kind, 1);
            for x in a.iter().rev() {
                skb.sketch(*x);
            }
            skb.finish();
            let (ba, bb) = (ska.bits(), skb.bits());
            for v in 0..3 {
                out[v] = if ba[v] == bb[v] { 1. } else { 0. };
            }
        });
        let case = json!({"kind": kind.name(), "m": 1, "items": n, "J": 1, "orders": "forward slice vs reversed item-wise"});
        rep.distinct.insert(mix(&[fnv64(cell.as_bytes())]));
        record_cell(rep, "C08", &cell, &rs, trials * 2, case);
    }
    // ---- structured (low entropy) identifiers with NoHashHasher: the item value is the hash. Disjoint sets whose identifiers are
    // related (halves swapped, small ranks, shifted ranks) must still never agree in the u64 view nor (beyond 2^-32) in the u32 view
    for (ki, kind) in [UKind::OptF64NoHash, UKind::RevF64NoHash].iter().enumerate() {
        for (fi, family) in ["swapped_halves", "ranks_vs_shifted_ranks", "xor_equal_halves"].iter().enumerate() {
            for m in [8usize, 300] {
                let cell = format!("{}/structured/{}/m={}", kind.name(), family, m);
                if !rep.want(&cell) {
                    continue;
                }
                let kind = *kind;
                let nitems = 12usize;
                let tt: u64 = rep.tier.pick(1500, 15_000);
                let targets = vec![Target::new("float_view", 1e-9, Kind::Upper), Target::new("u64_view", 0., Kind::Exact), Target::new("u32_view", 1e-6, Kind::Upper)];
                let seed = subseed(rep.seed, "C08/structured", &[ki as u64, fi as u64, m as u64]);
                let (rs, trials) = staged(seed, tt, 2, &targets, |rng, out| {
                    let base: u64 = rng.random_range(1_000..1_000_000); // >= 1000: the constant 7 used below can never coincide with a rank
                    let (a, b): (Vec<u64>, Vec<u64>) = match fi {
                        0 => ((0..nitems as u64).map(|k| ((base + k) << 32) | (base + k + 5000)).collect(), (0..nitems as u64).map(|k| ((base + k + 5000) << 32) | (base + k)).collect()),
                        1 => ((0..nitems as u64).map(|k| base + k).collect(), (0..nitems as u64).map(|k| (base + k) << 32).collect()),
                        _ => ((0..nitems as u64).map(|k| ((base + k) << 32) | 7).collect(), (0..nitems as u64).map(|k| (7u64 << 32) | (base + k)).collect()),
                    };
                    let mut ska = make_usk(kind, m);
                    ska.sketch_slice(&a);
                    let mut skb = make_usk(kind, m);
                    skb.sketch_slice(&b);
                    let (ba, bb) = (ska.bits(), skb.bits());
                    for v in 0..3 {
                        out[v] = (0..m).filter(|&p| ba[v * m + p] == bb[v * m + p]).count() as f64 / m as f64;
                    }
                });
                let case = json!({"kind": kind.name(), "m": m, "identifier_family": family, "items_per_set": nitems, "J": 0});
                rep.distinct.insert(mix(&[fnv64(cell.as_bytes())]));
                record_cell(rep, "C08", &cell, &rs, trials * 2, case);
            }
        }
    }
    collect_ticks(rep);
    rep.assumptions.push("positions of a densified sketch are strongly correlated in the sparse regime: only the empirical trial-level variance is used".into());
}
