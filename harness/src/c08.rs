use crate::common::*;

pub fn run(rep: &mut Report) {
    let _ = rep;
    eprintln!("C08 not implemented yet");
}
