//! pmhv : runtime monitors for the properties C01..C20 of probminhash (see /verif/DESIGN.md)
#![allow(dead_code, unused_imports, clippy::needless_range_loop, clippy::too_many_arguments, clippy::type_complexity)]

mod common;
mod gen;
mod sk;
mod stat;

mod c01;
mod c02;
mod c03;
mod c04;
mod c05;
mod c06;
mod c07;
mod c08;
mod c09;
mod c10;
mod c11;
mod c12;
mod c13;
mod c14;
mod c15;
mod c16;
mod c17;
mod c18;
mod c19;
mod c20;

use common::*;

fn usage() -> ! {
    eprintln!("usage: pmhv run <C01..C20> [--tier quick|thorough] [--seed N] [--cell NAME]\n       pmhv child <name> [args..]");
    std::process::exit(2);
}

fn main() {
    let args: Vec<String> = std::env::args().collect();
    if args.len() < 3 {
        usage();
    }
    let verif_dir = std::env::var("PMHV_VERIF_DIR").unwrap_or("/verif".to_string());
    match args[1].as_str() {
        "run" => {
            let id = args[2].to_uppercase();
            let mut tier = match std::env::var("VERIF_TIER").ok().as_deref() {
                Some("thorough") => Tier::Thorough,
                _ => Tier::Quick,
            };
            let mut seed: u64 = std::env::var("VERIF_SEED").ok().and_then(|s| s.trim().parse::<i64>().ok()).map(|x| x as u64).unwrap_or(1);
            let mut cell = None;
            let mut i = 3;
            while i < args.len() {
                match args[i].as_str() {
                    "--tier" => {
                        tier = if args[i + 1] == "thorough" { Tier::Thorough } else { Tier::Quick };
                        i += 2;
                    }
                    "--seed" => {
                        seed = args[i + 1].parse::<i64>().map(|x| x as u64).unwrap_or(1);
                        i += 2;
                    }
                    "--cell" => {
                        cell = Some(args[i + 1].clone());
                        i += 2;
                    }
                    _ => usage(),
                }
            }
            let mut rep = Report::new(&id, tier, seed, cell);
            // safety net: a panic of the code under test that escapes the per-case guards of a monitor (or breaks an
            // assumption of the harness, e.g. a sketch of the wrong length) is a deviation from the behaviour observed on
            // the unchanged tree, where no monitor panics: reported as a violation with its own key, never as a crash
            let outcome = std::panic::catch_unwind(std::panic::AssertUnwindSafe(|| {
                match id.as_str() {
                    "C01" => c01::run(&mut rep),
                    "C02" => c02::run(&mut rep),
                    "C03" => c03::run(&mut rep),
                    "C04" => c04::run(&mut rep),
                    "C05" => c05::run(&mut rep),
                    "C06" => c06::run(&mut rep),
                    "C07" => c07::run(&mut rep),
                    "C08" => c08::run(&mut rep),
                    "C09" => c09::run(&mut rep),
                    "C10" => c10::run(&mut rep),
                    "C11" => c11::run(&mut rep),
                    "C12" => c12::run(&mut rep),
                    "C13" => c13::run(&mut rep),
                    "C14" => c14::run(&mut rep),
                    "C15" => c15::run(&mut rep),
                    "C16" => c16::run(&mut rep),
                    "C17" => c17::run(&mut rep),
                    "C18" => c18::run(&mut rep),
                    "C19" => c19::run(&mut rep),
                    "C20" => c20::run(&mut rep),
                    _ => usage(),
                }
            }));
            if let Err(e) = outcome {
                let msg = if let Some(s) = e.downcast_ref::<&str>() {
                    s.to_string()
                } else if let Some(s) = e.downcast_ref::<String>() {
                    s.clone()
                } else {
                    "panic".to_string()
                };
                let key = format!("{}/panic", id);
                rep.evaluations += 1;
                rep.violation(&key, "monitor", format!("the code under test panicked outside a guarded call of the monitor: {}", msg), serde_json::json!({"panic": msg}));
            }
            let code = rep.finish(&verif_dir);
            std::process::exit(code);
        }
        "child" => {
            let rest: Vec<String> = args[3..].to_vec();
            let code = match args[2].as_str() {
                "c01mse" => c01::child_mse(&rest),
                "c06par" => c06::child_par(&rest),
                "c12" => c12::child(&rest),
                "c14mle" => c14::child_mle(&rest),
                "c14mismatch" => c14::child_mismatch(&rest),
                "c18" => c18::child(&rest),
                "c20dump" => c20::child_dump(&rest),
                "c20reload" => c20::child_reload(&rest),
                _ => usage(),
            };
            std::process::exit(code);
        }
        _ => usage(),
    }
}
