//! shared infrastructure: deterministic PRNG streams, evidence/report, known findings, verdict discipline

use rand::SeedableRng;
use rand_xoshiro::Xoshiro256PlusPlus;
use serde_json::{json, Map, Value};
use std::collections::{BTreeMap, HashSet};
use std::time::Instant;

pub type Rng = Xoshiro256PlusPlus;

#[derive(Copy, Clone, Debug, PartialEq, Eq)]
pub enum Tier {
    Quick,
    Thorough,
}

impl Tier {
    pub fn name(&self) -> &'static str {
        match self {
            Tier::Quick => "quick",
            Tier::Thorough => "thorough",
        }
    }
    /// pick by tier
    pub fn pick<T>(&self, q: T, t: T) -> T {
        match self {
            Tier::Quick => q,
            Tier::Thorough => t,
        }
    }
}

pub fn splitmix(mut x: u64) -> u64 {
    x = x.wrapping_add(0x9E3779B97F4A7C15);
    let mut z = x;
    z = (z ^ (z >> 30)).wrapping_mul(0xBF58476D1CE4E5B9);
    z = (z ^ (z >> 27)).wrapping_mul(0x94D049BB133111EB);
    z ^ (z >> 31)
}

/// fnv-1a over bytes, used for case digests and sub-seed derivation from names
pub fn fnv64(bytes: &[u8]) -> u64 {
    let mut h: u64 = 0xcbf29ce484222325;
    for b in bytes {
        h ^= *b as u64;
        h = h.wrapping_mul(0x100000001b3);
    }
    h
}

pub fn mix(parts: &[u64]) -> u64 {
    let mut h = 0x243F6A8885A308D3u64;
    for p in parts {
        h = splitmix(h ^ *p);
    }
    h
}

/// sub seed from the run seed, a name (property / cell / leg) and indices
pub fn subseed(seed: u64, name: &str, idx: &[u64]) -> u64 {
    let mut v = vec![seed, fnv64(name.as_bytes())];
    v.extend_from_slice(idx);
    mix(&v)
}

pub fn rng_from(seed: u64) -> Rng {
    Rng::seed_from_u64(seed)
}

pub fn digest_u64s(v: &[u64]) -> u64 {
    mix(v)
}

pub fn digest_f64s(v: &[f64]) -> u64 {
    let mut h = 0x13198A2E03707344u64;
    for p in v {
        h = splitmix(h ^ p.to_bits());
    }
    h
}

#[derive(Clone, Debug)]
pub struct Violation {
    /// key used to match a known finding (class of failing input + call site)
    pub key: String,
    pub cell: String,
    pub what: String,
    pub case: Value,
}

pub struct Report {
    pub id: String,
    pub tier: Tier,
    pub seed: u64,
    pub only_cell: Option<String>,
    pub level: &'static str,
    pub rule: String,
    pub evaluations: u64,
    pub distinct: HashSet<u64>,
    pub samples: Vec<Value>,
    pub cells: Vec<Value>,
    pub violations: Vec<Violation>,
    pub inconclusive: Vec<String>,
    pub excused: BTreeMap<String, u64>,
    pub counters: BTreeMap<String, u64>,
    pub extra: Map<String, Value>,
    pub assumptions: Vec<String>,
    pub exhaustive: Option<bool>,
    pub start: Instant,
    pub max_samples: usize,
}

impl Report {
    pub fn new(id: &str, tier: Tier, seed: u64, only_cell: Option<String>) -> Self {
        Report {
            id: id.to_string(),
            tier,
            seed,
            only_cell,
            level: "exploration",
            rule: String::new(),
            evaluations: 0,
            distinct: HashSet::new(),
            samples: Vec::new(),
            cells: Vec::new(),
            violations: Vec::new(),
            inconclusive: Vec::new(),
            excused: BTreeMap::new(),
            counters: BTreeMap::new(),
            extra: Map::new(),
            assumptions: Vec::new(),
            exhaustive: None,
            start: Instant::now(),
            max_samples: 6,
        }
    }

    /// should this cell be run (replay restricts to one cell)
    pub fn want(&self, cell: &str) -> bool {
        match &self.only_cell {
            None => true,
            Some(c) => c == cell || cell.starts_with(&format!("{}/", c)) || c.starts_with(&format!("{}/", cell)),
        }
    }

    pub fn sample(&mut self, v: Value) {
        if self.samples.len() < self.max_samples {
            self.samples.push(v);
        }
    }

    pub fn count(&mut self, name: &str, n: u64) {
        *self.counters.entry(name.to_string()).or_insert(0) += n;
    }

    pub fn excuse(&mut self, name: &str, n: u64) {
        *self.excused.entry(name.to_string()).or_insert(0) += n;
    }

    pub fn violation(&mut self, key: &str, cell: &str, what: String, case: Value) {
        // keep the first few per key, count the rest
        let same = self.violations.iter().filter(|v| v.key == key).count();
        self.count(&format!("violations[{}]", key), 1);
        if same < 5 {
            self.violations.push(Violation {
                key: key.to_string(),
                cell: cell.to_string(),
                what,
                case,
            });
        }
    }

    pub fn add_ticks(&mut self, t: &[u64; probminhash::verif::NB_EVENTS]) {
        const NAMES: [&str; probminhash::verif::NB_EVENTS] = [
            "tick.pmh_prune_break",
            "tick.pmh3a_second_pass",
            "tick.smh_upper_decrease",
            "tick.setsketch_low_raise",
            "tick.setsketch_low_break",
            "tick.setsketch_overflow_clip",
            "tick.fy_lazy_wrap",
            "tick.dens_copy",
            "tick.ord_rejected",
        ];
        for (i, n) in t.iter().enumerate() {
            if *n > 0 {
                self.count(NAMES[i], *n);
            }
        }
    }

    /// writes evidence, replays, prints verdict lines; returns exit code
    pub fn finish(mut self, verif_dir: &str) -> i32 {
        let wall = self.start.elapsed().as_secs_f64();
        // known findings
        let kf_path = format!("{}/known_findings.json", verif_dir);
        let kf: Value = std::fs::read_to_string(&kf_path)
            .ok()
            .and_then(|s| serde_json::from_str(&s).ok())
            .unwrap_or(json!({"findings": []}));
        let mut open_keys: BTreeMap<String, String> = BTreeMap::new();
        if let Some(arr) = kf.get("findings").and_then(|f| f.as_array()) {
            for f in arr {
                let prop = f.get("property").and_then(|x| x.as_str()).unwrap_or("");
                let status = f.get("status").and_then(|x| x.as_str()).unwrap_or("");
                if prop == self.id && status == "open" {
                    let key = f.get("key").and_then(|x| x.as_str()).unwrap_or("").to_string();
                    let what = f.get("what").and_then(|x| x.as_str()).unwrap_or("").to_string();
                    open_keys.insert(key, what);
                }
            }
        }
        let mut known_printed: HashSet<String> = HashSet::new();
        let mut n_unlisted = 0;
        let mut n_known = 0;
        let mut viol_json = Vec::new();
        let _ = std::fs::create_dir_all(format!("{}/replays", verif_dir));
        let viols = std::mem::take(&mut self.violations);
        for (i, v) in viols.iter().enumerate() {
            if let Some(what) = open_keys.get(&v.key) {
                n_known += 1;
                if known_printed.insert(v.key.clone()) {
                    println!("KNOWN-FINDING: property={} key={} {}", self.id, v.key, what);
                }
                viol_json.push(json!({"key": v.key, "cell": v.cell, "what": v.what, "known_finding": true, "case": v.case}));
            } else {
                n_unlisted += 1;
                let path = format!("{}/replays/{}-{}-s{}-{}.json", verif_dir, self.id, self.tier.name(), self.seed, i);
                let replay = json!({
                    "property": self.id, "tier": self.tier.name(), "seed": self.seed,
                    "cell": v.cell, "key": v.key, "what": v.what, "case": v.case,
                });
                let _ = std::fs::write(&path, serde_json::to_string_pretty(&replay).unwrap());
                println!("VIOLATION property={} replay={}", self.id, path);
                println!("  key={} cell={} : {}", v.key, v.cell, v.what);
                viol_json.push(json!({"key": v.key, "cell": v.cell, "what": v.what, "known_finding": false, "replay": path}));
            }
        }
        for s in &self.inconclusive {
            println!("INCONCLUSIVE property={} {}", self.id, s);
        }
        let distinct = self.distinct.len() as u64;
        let mut coverage = Map::new();
        coverage.insert("evaluations".into(), json!(self.evaluations));
        coverage.insert("distinct_nontrivial".into(), json!(distinct));
        coverage.insert("rule".into(), json!(self.rule));
        coverage.insert("samples".into(), Value::Array(self.samples.clone()));
        if let Some(e) = self.exhaustive {
            coverage.insert("exhaustive".into(), json!(e));
        }
        coverage.insert("cells".into(), Value::Array(self.cells.clone()));
        coverage.insert("counters".into(), json!(self.counters));
        coverage.insert("excused".into(), json!(self.excused));
        coverage.insert("inconclusive".into(), json!(self.inconclusive));
        coverage.insert("violation_details".into(), Value::Array(viol_json));
        coverage.insert("known_findings_seen".into(), json!(n_known));
        for (k, v) in self.extra.iter() {
            coverage.insert(k.clone(), v.clone());
        }
        let ev = json!({
            "property_id": self.id,
            "tier": self.tier.name(),
            "seed": self.seed,
            "level": self.level,
            "coverage": Value::Object(coverage),
            "assumptions": self.assumptions,
            "wall_s": wall,
            "violations": n_unlisted,
        });
        let evpath = std::env::var("PMHV_EVIDENCE").unwrap_or(format!("{}/evidence/{}.json", verif_dir, self.id));
        if self.only_cell.is_none() || std::env::var("PMHV_EVIDENCE").is_ok() {
            let _ = std::fs::create_dir_all(format!("{}/evidence", verif_dir));
            std::fs::write(&evpath, serde_json::to_string_pretty(&ev).unwrap()).expect("cannot write evidence");
        }
        println!(
            "SUMMARY property={} tier={} seed={} evaluations={} distinct_nontrivial={} violations={} known={} inconclusive={} wall_s={:.1}",
            self.id, self.tier.name(), self.seed, self.evaluations, distinct, n_unlisted, n_known, self.inconclusive.len(), wall
        );
        if n_unlisted > 0 {
            return 1;
        }
        if self.evaluations == 0 || (distinct < 2 && self.only_cell.is_none()) {
            println!("BROKEN-CHECK property={} the monitor observed nothing", self.id);
            return 2;
        }
        0
    }
}

/// catch a panic and return its message
pub fn catch<F: FnOnce() -> T + std::panic::UnwindSafe, T>(f: F) -> Result<T, String> {
    match std::panic::catch_unwind(f) {
        Ok(v) => Ok(v),
        Err(e) => {
            let msg = if let Some(s) = e.downcast_ref::<&str>() {
                s.to_string()
            } else if let Some(s) = e.downcast_ref::<String>() {
                s.clone()
            } else {
                "non-string panic payload".to_string()
            };
            Err(msg)
        }
    }
}

/// silence the default panic hook (panics are expected and caught in several monitors)
pub fn quiet_panics() {
    std::panic::set_hook(Box::new(|_| {}));
}

pub fn f64_json(v: &[f64]) -> Value {
    Value::Array(v.iter().map(|x| if x.is_finite() { json!(x) } else { json!(format!("{}", x)) }).collect())
}

/// gathers the event counters of the main thread and of every rayon worker thread into the report
pub fn collect_ticks(rep: &mut Report) {
    let t = probminhash::verif::take_counters();
    rep.add_ticks(&t);
    for t in rayon::broadcast(|_| probminhash::verif::take_counters()) {
        rep.add_ticks(&t);
    }
}
