#!/bin/bash
# usage: tools/try_seed.sh <patch.diff> <ID> [tier] [seed]  -- applies a seeded change to a scratch worktree and runs the check against it
patch=$1; id=$2; tier=${3:-quick}; seed=${4:-1}
wt=${MUT_WT:-/tmp/mut-wt}
[ -d "$wt" ] || git -C /repo worktree add --detach "$wt" HEAD >/dev/null 2>&1
git -C "$wt" checkout -q --detach "$(git -C /repo rev-parse HEAD)" 2>/dev/null
git -C "$wt" checkout -- . && git -C "$wt" apply "$patch" || { echo "patch does not apply"; exit 3; }
cd /verif && VERIF_SEED=$seed PMHV_REPO_OVERRIDE="$wt" ./check "$id" "$tier" 2>&1 | grep -E "^(VIOLATION|KNOWN|INCONCLUSIVE|BROKEN|SUMMARY|  key=)" | cut -c1-300 | head -${LINES_MAX:-8}
rc=${PIPESTATUS[0]}
git -C "$wt" checkout -- .
exit $rc
