#!/usr/bin/env python3
"""Regenerates the tables of DESIGN.md section 9 (between the markers) from seeded/*/meta.json and
tools/mutants/last_results.json."""
import glob
import json
import os

VERIF = os.path.dirname(os.path.dirname(os.path.abspath(__file__)))


def main():
    rows = []
    for mp in sorted(glob.glob(os.path.join(VERIF, "seeded", "*", "meta.json"))):
        m = json.load(open(mp))
        name = os.path.basename(os.path.dirname(mp))
        det = m.get("detection", {})
        caught = [p for p, d in det.items() if d.get("caught")]
        missed = [p for p, d in det.items() if not d.get("caught")]
        keys = []
        for p in caught:
            keys += det[p].get("violation_keys", [])[:2]
        summ = (m.get("summary") or "").replace("|", "/").replace("\n", " ")
        needs = (m.get("needs_to_manifest") or "")
        if isinstance(needs, list):
            needs = "; ".join(str(x) for x in needs)
        needs = str(needs).replace("|", "/").replace("\n", " ")
        rows.append("| `%s` | %s | %s | %s | %s |" % (name, summ[:260], needs[:220], ", ".join("**%s**" % c for c in caught) + (" (not by: %s)" % ", ".join(missed) if missed else ""), ", ".join("`%s`" % k for k in keys[:3])))
    table = ["| seeded change | what was changed (author's words) | needs | caught by (quick tier) | first violation keys |", "|---|---|---|---|---|"] + rows
    own = []
    lp = os.path.join(VERIF, "tools", "mutants", "last_results.json")
    if os.path.exists(lp):
        for r in json.load(open(lp)):
            ch = r.get("checks", {})
            c = [p for p, d in ch.items() if d.get("exit") == 1]
            n = [p for p, d in ch.items() if d.get("exit") != 1]
            own.append("| `%s` | %s | %s | %s |" % (r["mutant"], r.get("file", "?"), ", ".join("**%s**" % x for x in c) or "—", ", ".join(n) or "—"))
    own_table = ["| own mutant | file | caught by | expected but silent |", "|---|---|---|---|"] + own
    d = open(os.path.join(VERIF, "DESIGN.md")).read()
    a, b = "<!-- SEEDED-TABLE-BEGIN -->", "<!-- SEEDED-TABLE-END -->"
    if a in d and b in d:
        d = d[:d.index(a) + len(a)] + "\n" + "\n".join(table) + "\n" + d[d.index(b):]
    a, b = "<!-- OWN-MUTANTS-BEGIN -->", "<!-- OWN-MUTANTS-END -->"
    if a in d and b in d:
        d = d[:d.index(a) + len(a)] + "\n" + "\n".join(own_table) + "\n" + d[d.index(b):]
    open(os.path.join(VERIF, "DESIGN.md"), "w").write(d)
    print("seeded rows: %d, own mutants: %d" % (len(rows), len(own)))


if __name__ == "__main__":
    main()
