#!/bin/bash
# usage: tools/run_some.sh <quick|thorough> <seed> <ID> [<ID> ...]   -- like run_all.sh for a chosen list of checks
cd "$(dirname "$0")/.."
tier=$1; s=$2; shift 2
./check build >/dev/null
for p in "$@"; do
  t0=$(date +%s)
  out=$(VERIF_SEED=$s ./check $p $tier 2>&1); rc=$?
  t1=$(date +%s)
  echo "== $p tier=$tier seed=$s rc=$rc wall=$((t1-t0))s"
  echo "$out" | grep -E "^(VIOLATION|KNOWN-FINDING|INCONCLUSIVE|BROKEN|SUMMARY|  key=)" | cut -c1-400
done
