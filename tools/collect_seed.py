#!/usr/bin/env python3
"""Collects a confirmed seeded change into /verif/seeded/<ID>-m<k>/ and records which checks catch it.
Usage: collect_seed.py <seed-out dir> <primary ID> [other IDs to try ...]   (env TIER=quick|thorough)
The change is applied to a scratch worktree (PMHV_REPO_OVERRIDE), never to /repo."""
import json
import os
import shutil
import subprocess
import sys
import time

VERIF = os.path.dirname(os.path.dirname(os.path.abspath(__file__)))


def main():
    d = os.path.abspath(sys.argv[1])
    ids = sys.argv[2:]
    tier = os.environ.get("TIER", "quick")
    name = "%s-%s" % (ids[0], os.path.basename(d))
    dest = os.path.join(VERIF, "seeded", name)
    conf = json.load(open(os.path.join(d, "confirm.json"))) if os.path.exists(os.path.join(d, "confirm.json")) else {}
    meta = json.load(open(os.path.join(d, "meta.json")))
    wt = os.environ.get("MUT_WT", "/tmp/mut-wt-collect")
    if not os.path.isdir(wt):
        subprocess.run(["git", "-C", "/repo", "worktree", "add", "--detach", wt, "HEAD"], stdout=subprocess.DEVNULL, stderr=subprocess.DEVNULL)
    head = subprocess.run(["git", "-C", "/repo", "rev-parse", "HEAD"], stdout=subprocess.PIPE, text=True).stdout.strip()
    subprocess.run(["git", "-C", wt, "checkout", "-q", "--detach", head])
    subprocess.run(["git", "-C", wt, "checkout", "--", "."])
    r = subprocess.run(["git", "-C", wt, "apply", os.path.join(d, "patch.diff")], stdout=subprocess.PIPE, stderr=subprocess.STDOUT, text=True)
    if r.returncode != 0:
        print("patch does not apply:", r.stdout)
        return 3
    det = {}
    env = dict(os.environ)
    env["PMHV_REPO_OVERRIDE"] = wt
    for pid in ids:
        t0 = time.time()
        r = subprocess.run(["./check", pid, tier], cwd=VERIF, env=env, stdout=subprocess.PIPE, stderr=subprocess.STDOUT, text=True)
        keys = sorted(set(l.split("key=")[1].split()[0] for l in r.stdout.splitlines() if "key=" in l and "KNOWN-FINDING" not in l))
        first = [l.strip() for l in r.stdout.splitlines() if l.strip().startswith("key=")][:1]
        det[pid] = {"tier": tier, "exit": r.returncode, "caught": r.returncode == 1, "violation_keys": keys[:6], "first_report": first[0][:400] if first else None, "wall_s": round(time.time() - t0, 1)}
        print(name, pid, "exit", r.returncode, keys[:3], flush=True)
    subprocess.run(["git", "-C", wt, "checkout", "--", "."])
    os.makedirs(dest, exist_ok=True)
    shutil.copy(os.path.join(d, "patch.diff"), dest)
    shutil.copy(os.path.join(d, "demo.rs"), dest)
    out = {
        "breaks_property": ids[0],
        "summary": meta.get("summary"),
        "needs_to_manifest": meta.get("needs"),
        "files": meta.get("files"),
        "written_by": "independent sub-agent given only the property text and a scratch worktree",
        "author_verification": meta.get("verified"),
        "my_confirmation": {k: v for k, v in conf.items() if not k.endswith("_tail") and k != "dir"},
        "confirmed": conf.get("confirmed"),
        "detection": det,
        "how_checked": "patch applied to a scratch git worktree of /repo (PMHV_REPO_OVERRIDE), ./check <ID> %s run against it, worktree restored" % tier,
    }
    old = os.path.join(dest, "meta.json")
    if os.path.exists(old):
        prev = json.load(open(old))
        pd = prev.get("detection", {})
        pd.update(det)
        out["detection"] = pd
    json.dump(out, open(old, "w"), indent=1)
    return 0


if __name__ == "__main__":
    sys.exit(main())
