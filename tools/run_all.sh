#!/bin/bash
# usage: tools/run_all.sh <quick|thorough> [seed ...]   -- runs every claimed check, prints verdict lines and timings
cd "$(dirname "$0")/.."
tier=${1:-quick}; shift
seeds=${@:-1}
./check build >/dev/null
for s in $seeds; do
  for p in $(cat tools/claimed.txt); do
    t0=$(date +%s)
    out=$(VERIF_SEED=$s ./check $p $tier 2>&1); rc=$?
    t1=$(date +%s)
    echo "== $p tier=$tier seed=$s rc=$rc wall=$((t1-t0))s"
    echo "$out" | grep -E "^(VIOLATION|KNOWN-FINDING|INCONCLUSIVE|BROKEN|SUMMARY|  key=)" | cut -c1-400
  done
done
