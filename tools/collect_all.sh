#!/bin/bash
# (re)collects every confirmed seeded change from /tmp/seed-out into /verif/seeded with fresh detection results
cd /verif
export MUT_WT=/tmp/mut-wt-collect
while read d ids; do
  [ -f /tmp/seed-out/$d/confirm.json ] || { echo "skip $d (no confirm.json)"; continue; }
  python3 - "$d" <<'PY' || { echo "skip $d (not confirmed)"; continue; }
import json,sys
c=json.load(open('/tmp/seed-out/%s/confirm.json'%sys.argv[1])); sys.exit(0 if c.get('confirmed') else 1)
PY
  python3 tools/collect_seed.py /tmp/seed-out/$d $ids
done <<'LIST'
C01/m1 C01 C02
C01/m2 C01
C02/m1 C02 C01
C02/m2 C02
C03/m1 C03
C03/m2 C03 C13
C04/m1 C04 C03
C04/m2 C04 C05 C07
C05/m1 C05 C04 C07
C05/m2 C05
C06/m1 C06 C13
C06/m2 C06 C05
C07/m1 C07 C04 C05
C07/m2 C07
C08/m1 C08
C08/m2 C08 C09
C09/m1 C09
C09/m2 C09
C10/m1 C10 C11
C10/m2 C10
C11/m1 C11 C10
C11/m2 C11 C10
C12/m1 C12
C12/m2 C12
C13/m1 C13 C03
C13/m2 C13 C03
C14/m1 C14
C14/m2 C14
C15/m1 C15
C15/m2 C15
C16/m1 C16
C16/m2 C16
C17/m1 C17
C17/m2 C17
C18/m1 C18
C18/m2 C18
C19/m1 C19
C19/m2 C19
C20/m1 C20
C20/m2 C20
LIST
python3 tools/seed_table.py
