#!/bin/bash
# (re)collects every confirmed seeded change from /tmp/seed-out into /verif/seeded with fresh detection results
cd /verif
export MUT_WT=/tmp/mut-wt-collect
while read d ids; do
  [ -f /tmp/seed-out/$d/confirm.json ] || { echo "skip $d (no confirm.json)"; continue; }
  python3 - "$d" <<'PY' || { echo "skip $d (not confirmed)"; continue; }
import json,sys
c=json.load(open('/tmp/seed-out/%s/confirm.json'%sys.argv[1])); sys.exit(0 if c.get('confirmed') else 1)
PY
  python3 tools/collect_seed.py /tmp/seed-out/$d $ids
done < <(grep -E "${1:-.}" tools/seed_list.txt)
python3 tools/seed_table.py
