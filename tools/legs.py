"""Tool legs of the checks: sanitizers (Miri, ASan, TSan, valgrind), strace fault injection.
Each leg is a short process around the same harness binary / sources; its result is merged into the
evidence file written by the monitor process. A tool that cannot start makes the leg inconclusive."""
import json
import os
import re
import shutil
import subprocess
import time

VERIF = os.path.dirname(os.path.dirname(os.path.abspath(__file__)))
HARNESS = os.environ.get("PMHV_HARNESS_DIR", os.path.join(VERIF, "harness"))
TARGET = os.environ.get("PMHV_TARGET_DIR", os.path.join(VERIF, "target"))
BIN = os.path.join(TARGET, "release", "pmhv")


def known_open(pid):
    try:
        kf = json.load(open(os.path.join(VERIF, "known_findings.json")))
    except Exception:
        return {}
    return {f["key"]: f.get("what", "") for f in kf.get("findings", []) if f.get("property") == pid and f.get("status") == "open"}


class LegResult:
    def __init__(self, pid, tier, seed):
        self.pid, self.tier, self.seed = pid, tier, seed
        self.legs = []          # dicts merged in evidence coverage["tool_legs"]
        self.violations = []    # (key, what, artefact-path)
        self.inconclusive = []
        self.evaluations = 0

    def violation(self, key, what, log_text, leg):
        os.makedirs(os.path.join(VERIF, "replays"), exist_ok=True)
        path = os.path.join(VERIF, "replays", "%s-%s-s%d-%s.json" % (self.pid, self.tier, self.seed, leg))
        json.dump({"property": self.pid, "tier": self.tier, "seed": self.seed, "leg": leg, "key": key, "what": what,
                   "tool_log_tail": log_text[-8000:]}, open(path, "w"), indent=1)
        self.violations.append((key, what, path))

    def finish(self, evpath):
        known = known_open(self.pid)
        rc = 0
        printed = set()
        details = []
        for key, what, path in self.violations:
            if key in known:
                if key not in printed:
                    print("KNOWN-FINDING: property=%s key=%s %s" % (self.pid, key, known[key]))
                    printed.add(key)
                details.append({"key": key, "what": what, "known_finding": True})
            else:
                print("VIOLATION property=%s replay=%s" % (self.pid, path))
                print("  key=%s : %s" % (key, what))
                details.append({"key": key, "what": what, "known_finding": False, "replay": path})
                rc = 1
        for s in self.inconclusive:
            print("INCONCLUSIVE property=%s %s" % (self.pid, s))
        try:
            ev = json.load(open(evpath))
        except Exception:
            return 2
        cov = ev["coverage"]
        cov["tool_legs"] = self.legs
        cov["evaluations"] = cov.get("evaluations", 0) + self.evaluations
        cov.setdefault("inconclusive", []).extend(self.inconclusive)
        cov.setdefault("violation_details", []).extend(details)
        if rc:
            ev["violations"] = ev.get("violations", 0) + sum(1 for d in details if not d["known_finding"])
        json.dump(ev, open(evpath, "w"), indent=1)
        return rc


def run(cmd, env, timeout, cwd=None):
    """returns (returncode or None on timeout, output)"""
    try:
        r = subprocess.run(cmd, env=env, cwd=cwd, stdout=subprocess.PIPE, stderr=subprocess.STDOUT, text=True,
                           timeout=timeout, errors="replace")
        return r.returncode, r.stdout
    except subprocess.TimeoutExpired as e:
        out = e.stdout if isinstance(e.stdout, str) else (e.stdout or b"").decode(errors="replace")
        return None, out


def run_legs(pid, tier, seed, env, evpath):
    fn = globals().get("legs_" + pid.lower())
    if fn is None:
        return 0
    res = LegResult(pid, tier, seed)
    fn(res, env)
    return res.finish(evpath)


def replay_leg(pid, rp, env):
    """re-run one tool leg"""
    res = LegResult(pid, rp.get("tier", "quick"), int(rp.get("seed", 1)))
    fn = globals().get("legs_" + pid.lower())
    if fn is None:
        return 2
    fn(res, env, only=rp["leg"])
    rc = 0
    for key, what, path in res.violations:
        print("VIOLATION property=%s replay=%s" % (pid, path))
        print("  key=%s : %s" % (key, what))
        rc = 1
    return rc


# ------------------------------------------------------------------------------------------------------
# C14 : the length-mismatch clause in a build without debug assertions (a user's release build)

def legs_c14(res, env, only=None):
    t0 = time.time()
    e = dict(env)
    rc, out = run(["cargo", "build", "--profile", "nodebug", "--offline", "--quiet"], e, 3600, cwd=HARNESS)
    binp = os.path.join(TARGET, "nodebug", "pmhv")
    if rc != 0 or not os.path.exists(binp):
        res.inconclusive.append("nodebug build failed: %s" % (out or "")[-300:].replace("\n", " | "))
        return
    rc, out = run([binp, "child", "c14mismatch", str(res.seed)], e, 600)
    m = re.search(r"C14MISMATCHDONE calls=(\d+) accepted=(\d+) debug_assertions=(\w+)", out or "")
    if not m:
        res.inconclusive.append("nodebug mismatch leg did not finish (exit %s): %s" % (rc, (out or "")[-300:].replace("\n", " | ")))
        return
    calls, accepted, dbg = int(m.group(1)), int(m.group(2)), m.group(3)
    if dbg != "false":
        res.inconclusive.append("nodebug binary was built with debug assertions")
    res.evaluations += calls
    if accepted:
        first = [l for l in out.splitlines() if l.startswith("C14MISMATCH-ACCEPTED")][0]
        name = first.split()[1]
        res.violation("C14/length-mismatch", "in a build without debug assertions %d of %d calls on sketches of unequal lengths returned a number; first: %s" % (accepted, calls, first[len("C14MISMATCH-ACCEPTED "):]), out, "nodebug")
    res.legs.append({"leg": "nodebug", "tool": "second build of the harness, profile nodebug (debug-assertions and overflow-checks off)", "estimator_calls_on_unequal_lengths": calls,
                     "accepted": accepted, "wall_s": round(time.time() - t0, 1)})


# ------------------------------------------------------------------------------------------------------
# C18 : Miri (quick + thorough), AddressSanitizer and valgrind memcheck (thorough)

def first_repo_frame(text):
    # only look after the first tool report (compiler warnings before it mention harness files too)
    for marker in ("Undefined Behavior", "ERROR: AddressSanitizer", "Invalid ", "ERROR: LeakSanitizer"):
        k = text.find(marker)
        if k >= 0:
            text = text[k:]
            break
    for line in text.splitlines():
        m = re.search(r"(/repo/src/[\w/]+\.rs:\d+)", line)
        if m:
            return m.group(1)
    for line in text.splitlines():
        m = re.search(r"(src/c\d\d\.rs:\d+)", line)
        if m:
            return "harness " + m.group(1)
    return "?"


def miri_run(args, env, timeout):
    e = dict(env)
    e["MIRIFLAGS"] = "-Zmiri-disable-isolation"
    e["CARGO_TARGET_DIR"] = os.path.join(TARGET, "miri")
    return run(["cargo", "+nightly", "miri", "run", "--offline", "--quiet", "--"] + args, e, timeout, cwd=HARNESS)


def legs_c18(res, env, only=None):
    tier, seed = res.tier, res.seed
    # ---- Miri
    if only in (None, "miri"):
        sizes = [["20", "4", "40", "4"], ["4", "2", "4100", "2"]] if tier == "quick" else [["60", "8", "120", "8"], ["30", "12", "300", "4"], ["10", "3", "2000", "3"], ["40", "6", "64", "6"], ["4", "2", "9000", "2"], ["2", "1", "17000", "2"]]
        t0 = time.time()
        import concurrent.futures as cf
        with cf.ThreadPoolExecutor(max_workers=4) as ex:
            futs = [ex.submit(miri_run, ["child", "c18", str(seed * 1000 + i)] + sz, env, 1800) for i, sz in enumerate(sizes)]
            outs = [f.result() for f in futs]
        nvals = 0
        reports = 0
        for (rc, out), sz in zip(outs, sizes):
            m = re.search(r"C18DONE values=(\d+) bytes=(\d+) distinct=(\d+) bad=(\d+)", out or "")
            if rc is None:
                res.inconclusive.append("miri leg timed out (sizes %s)" % sz)
            elif "Undefined Behavior" in out or "memory leaked" in out or "error: unsupported operation" in out:
                reports += 1
                first = [l for l in out.splitlines() if l.startswith("error:")][:1]
                res.violation("C18/miri", "Miri reports %s at %s" % (first[0] if first else "an error", first_repo_frame(out)), out, "miri")
            elif m and rc in (0, 3):
                nvals += int(m.group(1))
                if rc == 3:
                    bad = [l for l in out.splitlines() if l.startswith("C18BAD")]
                    res.violation("C18/bytes", "byte mismatch under Miri: %s" % (bad[0] if bad else "?"), out, "miri")
            else:
                res.inconclusive.append("miri leg did not run to completion (exit %s): %s" % (rc, (out or "")[-300:].replace("\n", " | ")))
        res.evaluations += nvals
        res.legs.append({"leg": "miri", "tool": "cargo +nightly miri run (isolation off)", "processes": len(sizes), "values_checked_under_miri": nvals,
                         "reports": reports, "wall_s": round(time.time() - t0, 1)})
    # ---- AddressSanitizer (thorough)
    if (tier == "thorough" and only is None) or only == "asan":
        t0 = time.time()
        e = dict(env)
        e["RUSTFLAGS"] = "-Zsanitizer=address -Cforce-frame-pointers=yes"
        e["CARGO_TARGET_DIR"] = os.path.join(TARGET, "asan")
        rc, out = run(["cargo", "+nightly", "build", "--release", "--offline", "--quiet", "--target", "x86_64-unknown-linux-gnu"], e, 1800, cwd=HARNESS)
        binp = os.path.join(TARGET, "asan", "x86_64-unknown-linux-gnu", "release", "pmhv")
        if rc != 0 or not os.path.exists(binp):
            res.inconclusive.append("asan build failed: %s" % (out or "")[-300:].replace("\n", " | "))
        else:
            e2 = dict(env)
            e2["ASAN_OPTIONS"] = "halt_on_error=1:abort_on_error=0:detect_leaks=1:exitcode=77"
            nvals = 0
            reports = 0
            for i in range(3):
                rc, out = run([binp, "child", "c18", str(seed * 77 + i), "2000", "60", "200000" if i == 0 else "3000", "64"], e2, 900)
                m = re.search(r"C18DONE values=(\d+)", out or "")
                if out and ("ERROR: AddressSanitizer" in out or "ERROR: LeakSanitizer" in out):
                    reports += 1
                    first = [l for l in out.splitlines() if "ERROR: " in l][:1]
                    res.violation("C18/asan", "%s (first crate frame %s)" % (first[0].strip() if first else "ASan report", first_repo_frame(out)), out, "asan")
                    break
                elif m and rc == 0:
                    nvals += int(m.group(1))
                elif rc is None:
                    res.inconclusive.append("asan run timed out")
                else:
                    res.violation("C18/crash", "workload under ASan exited with %s without a sanitizer report: %s" % (rc, (out or "")[-200:].replace("\n", " | ")), out or "", "asan")
                    break
            res.evaluations += nvals
            res.legs.append({"leg": "asan", "tool": "rustc nightly -Zsanitizer=address", "runs": 3, "values_checked_under_asan": nvals, "reports": reports, "wall_s": round(time.time() - t0, 1)})
    # ---- valgrind memcheck on the plain release binary (quick and thorough: it costs a few seconds)
    if only in (None, "valgrind"):
        t0 = time.time()
        if shutil.which("valgrind") is None:
            res.inconclusive.append("valgrind not found")
        else:
            rc, out = run(["valgrind", "--error-exitcode=9", "--leak-check=full", "--errors-for-leak-kinds=definite", "-q", BIN, "child", "c18", str(seed * 13), "300", "20", "20000" if tier == "quick" else "300000", "16"], env, 1800)
            m = re.search(r"C18DONE values=(\d+)", out or "")
            if rc == 9 or (out and ("Invalid read" in out or "Invalid free" in out or "Invalid write" in out)):
                first = [l for l in (out or "").splitlines() if "Invalid" in l or "definitely lost" in l][:1]
                res.violation("C18/valgrind", "memcheck: %s (first crate frame %s)" % (first[0].strip() if first else "error", first_repo_frame(out or "")), out or "", "valgrind")
            elif m and rc == 0:
                res.evaluations += int(m.group(1))
            elif rc is None:
                res.inconclusive.append("valgrind run timed out")
            else:
                res.violation("C18/crash", "workload under valgrind exited with %s: %s" % (rc, (out or "")[-200:].replace("\n", " | ")), out or "", "valgrind")
            res.legs.append({"leg": "valgrind", "tool": "valgrind memcheck --leak-check=full", "values_checked": int(m.group(1)) if m else 0, "exit": rc, "wall_s": round(time.time() - t0, 1)})


# ------------------------------------------------------------------------------------------------------
# ThreadSanitizer legs (thorough): C12 thread battery, C06 rayon reduction

def tsan_build(env):
    e = dict(env)
    e["RUSTFLAGS"] = "-Zsanitizer=thread"
    e["CARGO_TARGET_DIR"] = os.path.join(TARGET, "tsan")
    rc, out = run(["cargo", "+nightly", "build", "--release", "--offline", "--quiet", "-Zbuild-std", "--target", "x86_64-unknown-linux-gnu"], e, 3600, cwd=HARNESS)
    binp = os.path.join(TARGET, "tsan", "x86_64-unknown-linux-gnu", "release", "pmhv")
    if rc != 0 or not os.path.exists(binp):
        return None, (out or "")[-400:]
    return binp, ""


def tsan_leg(res, env, pid, cell, tier_for_run):
    t0 = time.time()
    binp, err = tsan_build(env)
    if binp is None:
        res.inconclusive.append("tsan build failed: %s" % err.replace("\n", " | "))
        return
    e = dict(env)
    e["TSAN_OPTIONS"] = "halt_on_error=0:exitcode=66:second_deadlock_stack=1"
    e["PMHV_EVIDENCE"] = os.path.join(TARGET, "tsan-evidence-%s.json" % pid)
    rc, out = run([binp, "run", pid, "--tier", tier_for_run, "--seed", str(res.seed), "--cell", cell], e, 3600, cwd=VERIF)
    nrep = len(re.findall(r"WARNING: ThreadSanitizer", out or ""))
    summ = re.search(r"SUMMARY property=\S+ .*evaluations=(\d+)", out or "")
    if rc is None:
        res.inconclusive.append("tsan run of %s/%s timed out" % (pid, cell))
    elif nrep > 0:
        first = re.search(r"WARNING: ThreadSanitizer: ([^\n]*)", out)
        res.violation("%s/tsan" % pid, "ThreadSanitizer: %d report(s), first: %s (first crate frame %s)" % (nrep, first.group(1) if first else "?", first_repo_frame(out)), out, "tsan")
    elif summ is None:
        res.inconclusive.append("tsan run of %s/%s did not complete (exit %s): %s" % (pid, cell, rc, (out or "")[-200:].replace("\n", " | ")))
    elif "VIOLATION" in (out or ""):
        res.violation("%s/tsan-run-mismatch" % pid, "the %s cell reports a violation when run under TSan: %s" % (cell, [l for l in out.splitlines() if "key=" in l][:1]), out, "tsan")
    if summ:
        res.evaluations += int(summ.group(1))
    res.legs.append({"leg": "tsan", "tool": "rustc nightly -Zsanitizer=thread -Zbuild-std", "cell": cell, "reports": nrep, "evaluations_under_tsan": int(summ.group(1)) if summ else 0,
                     "exit": rc, "wall_s": round(time.time() - t0, 1)})


def legs_c12(res, env, only=None):
    if res.tier == "thorough" or only == "tsan":
        tsan_leg(res, env, "C12", "threads", "quick")


def legs_c06(res, env, only=None):
    if res.tier == "thorough" or only == "tsan":
        tsan_leg(res, env, "C06", "sched", "quick")


# ------------------------------------------------------------------------------------------------------
# C20 thorough: real crashes injected with strace (kill inside the k-th write to parameters.json)

def legs_c20(res, env, only=None):
    if res.tier != "thorough" and only != "strace":
        return
    t0 = time.time()
    if shutil.which("strace") is None:
        res.inconclusive.append("strace not found")
        return
    base = os.path.join(TARGET, "tmp", "c20-strace-%d" % os.getpid())
    shutil.rmtree(base, ignore_errors=True)
    os.makedirs(base)
    tuples = [("1.001", "4096", "20", "65534"), ("1.9999999999999998", "18446744073709551615", "1e-300", "0"), ("1.5", "1", "0.1", "4294967297"),
              ("1.0000000000000002", "123456789", "33.333333333333336", "77")]
    ninj = 0
    outcomes = {}
    for ti, t in enumerate(tuples):
        for when in (1, 2, 3):
            for mode in ("kill", "error"):
                d = os.path.join(base, "t%d-w%d-%s" % (ti, when, mode))
                os.makedirs(d)
                inj = "inject=write:signal=KILL:when=%d" % when if mode == "kill" else "inject=write:error=ENOSPC:when=%d" % when
                rc, out = run(["strace", "-f", "-o", "/dev/null", "-P", os.path.join(d, "parameters.json"), "-e", "trace=write", "-e", inj,
                               BIN, "child", "c20dump", d] + list(t), env, 120)
                ninj += 1
                fpath = os.path.join(d, "parameters.json")
                size = os.path.getsize(fpath) if os.path.exists(fpath) else -1
                rc2, out2 = run([BIN, "child", "c20reload", d], env, 120)
                line = [l for l in (out2 or "").splitlines() if l.startswith("RELOAD")]
                line = line[0] if line else "RELOAD ? (exit %s)" % rc2
                kind = line.split()[1] if len(line.split()) > 1 else "?"
                outcomes[kind] = outcomes.get(kind, 0) + 1
                dumped_ok = out is not None and "DUMP OK" in out
                if kind == "PANIC" or rc2 not in (0,):
                    res.violation("C20/torn-file-panics", "after an injected %s in write #%d of the dump (file size %d) a fresh process reloading aborts: %s" % (mode, when, size, line), (out or "") + "\n" + (out2 or ""), "strace")
                elif kind == "OK":
                    # acceptable only if the file is complete and the parameters are the dumped ones
                    vals = line.split()[2:]
                    same = len(vals) == 4 and float(vals[0]) == float(t[0]) and int(vals[1]) == int(t[1]) and float(vals[2]) == float(t[2]) and int(vals[3]) == int(t[3])
                    if not same:
                        res.violation("C20/torn-file-accepted", "after an injected %s in write #%d (dump said ok=%s, file size %d) reload returns other parameters: %s" % (mode, when, dumped_ok, size, line), (out or "") + "\n" + (out2 or ""), "strace")
    shutil.rmtree(base, ignore_errors=True)
    res.evaluations += ninj
    res.legs.append({"leg": "strace", "tool": "strace -P parameters.json -e inject=write:signal=KILL|error=ENOSPC:when=k", "injections": ninj, "reload_outcomes": outcomes, "wall_s": round(time.time() - t0, 1)})
