"""Tool legs of the checks: sanitizers (Miri, ASan, TSan, valgrind), strace fault injection.
Each leg is a short process around the same harness binary / sources; its result is merged into the
evidence file written by the monitor process. A tool that cannot start makes the leg inconclusive."""
import json
import os
import re
import shutil
import subprocess
import time

VERIF = os.path.dirname(os.path.dirname(os.path.abspath(__file__)))
HARNESS = os.path.join(VERIF, "harness")
TARGET = os.path.join(VERIF, "target")
BIN = os.path.join(TARGET, "release", "pmhv")


def known_open(pid):
    try:
        kf = json.load(open(os.path.join(VERIF, "known_findings.json")))
    except Exception:
        return {}
    return {f["key"]: f.get("what", "") for f in kf.get("findings", []) if f.get("property") == pid and f.get("status") == "open"}


class LegResult:
    def __init__(self, pid, tier, seed):
        self.pid, self.tier, self.seed = pid, tier, seed
        self.legs = []          # dicts merged in evidence coverage["tool_legs"]
        self.violations = []    # (key, what, artefact-path)
        self.inconclusive = []
        self.evaluations = 0

    def violation(self, key, what, log_text, leg):
        os.makedirs(os.path.join(VERIF, "replays"), exist_ok=True)
        path = os.path.join(VERIF, "replays", "%s-%s-s%d-%s.json" % (self.pid, self.tier, self.seed, leg))
        json.dump({"property": self.pid, "tier": self.tier, "seed": self.seed, "leg": leg, "key": key, "what": what,
                   "tool_log_tail": log_text[-8000:]}, open(path, "w"), indent=1)
        self.violations.append((key, what, path))

    def finish(self, evpath):
        known = known_open(self.pid)
        rc = 0
        printed = set()
        details = []
        for key, what, path in self.violations:
            if key in known:
                if key not in printed:
                    print("KNOWN-FINDING: property=%s key=%s %s" % (self.pid, key, known[key]))
                    printed.add(key)
                details.append({"key": key, "what": what, "known_finding": True})
            else:
                print("VIOLATION property=%s replay=%s" % (self.pid, path))
                print("  key=%s : %s" % (key, what))
                details.append({"key": key, "what": what, "known_finding": False, "replay": path})
                rc = 1
        for s in self.inconclusive:
            print("INCONCLUSIVE property=%s %s" % (self.pid, s))
        try:
            ev = json.load(open(evpath))
        except Exception:
            return 2
        cov = ev["coverage"]
        cov["tool_legs"] = self.legs
        cov["evaluations"] = cov.get("evaluations", 0) + self.evaluations
        cov.setdefault("inconclusive", []).extend(self.inconclusive)
        cov.setdefault("violation_details", []).extend(details)
        if rc:
            ev["violations"] = ev.get("violations", 0) + sum(1 for d in details if not d["known_finding"])
        json.dump(ev, open(evpath, "w"), indent=1)
        return rc


def run(cmd, env, timeout, cwd=None):
    """returns (returncode or None on timeout, output)"""
    try:
        r = subprocess.run(cmd, env=env, cwd=cwd, stdout=subprocess.PIPE, stderr=subprocess.STDOUT, text=True,
                           timeout=timeout, errors="replace")
        return r.returncode, r.stdout
    except subprocess.TimeoutExpired as e:
        out = e.stdout if isinstance(e.stdout, str) else (e.stdout or b"").decode(errors="replace")
        return None, out


def run_legs(pid, tier, seed, env, evpath):
    fn = globals().get("legs_" + pid.lower())
    if fn is None:
        return 0
    res = LegResult(pid, tier, seed)
    fn(res, env)
    return res.finish(evpath)


def replay_leg(pid, rp, env):
    """re-run one tool leg"""
    res = LegResult(pid, rp.get("tier", "quick"), int(rp.get("seed", 1)))
    fn = globals().get("legs_" + pid.lower())
    if fn is None:
        return 2
    fn(res, env, only=rp["leg"])
    rc = 0
    for key, what, path in res.violations:
        print("VIOLATION property=%s replay=%s" % (pid, path))
        print("  key=%s : %s" % (key, what))
        rc = 1
    return rc
