#!/bin/bash
# Runs the repository's own test suite with the verification guard (cargo feature verif_hooks) OFF,
# the same way the baseline was recorded (cargo-nextest, profile pb), and compares with BASELINE.json.
set -u
cd /repo
export CARGO_NET_OFFLINE=true
OUT=$(mktemp -d /verif/target/baseline.XXXXXX 2>/dev/null || mktemp -d)
if command -v cargo-nextest >/dev/null 2>&1; then
  cargo nextest run --workspace --no-fail-fast --tool-config-file pb:/verif/tools/nextest.toml --profile pb --test-threads 8 --offline 2>&1 | tail -n 60 > "$OUT/log.txt"
  JUNIT=/repo/target/nextest/pb/junit.xml
  python3 - "$JUNIT" <<'PY'
import json, sys, xml.etree.ElementTree as ET
base = json.load(open('/root/.vp/BASELINE.json')) if __import__('os').path.exists('/root/.vp/BASELINE.json') else None
t = ET.parse(sys.argv[1]).getroot()
passed, failed = set(), set()
for tc in t.iter('testcase'):
    name = tc.get('classname', '') + '::' + tc.get('name', '')
    name = name.replace('probminhash::probminhash::', 'probminhash::')
    # nextest: classname = binary id (probminhash), name = module path
    full = 'probminhash::' + tc.get('name', '') if not tc.get('name', '').startswith('probminhash::') else tc.get('name', '')
    if tc.find('failure') is None and tc.find('error') is None:
        passed.add(full)
    else:
        failed.add(full)
print("passed %d failed %d" % (len(passed), len(failed)))
if base:
    missing = [x for x in base['stable_pass'] if x not in passed]
    print("baseline stable tests: %d, of which not passing now: %d" % (len(base['stable_pass']), len(missing)))
    for m in missing:
        print("  MISSING", m)
    sys.exit(1 if missing else 0)
PY
  rc=$?
else
  cargo test --workspace --no-fail-fast --offline 2>&1 | tail -n 60
  rc=$?
fi
rm -rf "$OUT"
exit $rc
