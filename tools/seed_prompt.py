import json,sys
props={json.loads(l)['id']:json.loads(l) for l in open('/verif/properties.jsonl')}
def prompt(p, n=2):
    pr=props[p]
    return f"""You are helping to test a verification framework by seeding realistic defects ("mutants") into a Rust library. You work ONLY inside your own scratch git worktree of the library at /tmp/seed-{p} (a checkout of the crate `probminhash`: randomized sketching algorithms — ProbMinHash, SuperMinHash, SetSketch, densified one-permutation hashing). Do NOT read, list or modify anything under /verif or /repo, and do not look at other /tmp/seed-* directories. Write your results under /tmp/seed-out/{p}/ only.

The property that the library is supposed to satisfy:

TITLE: {pr['title']}
STATEMENT: {pr['statement']}
QUANTIFIED OVER: {pr['quantifier']['text']}

Your task: produce {n} DIFFERENT source changes to the library (each one independent, each applied to a clean checkout) that BREAK this property while the crate still compiles and its existing test-suite still passes. We want subtle, realistic changes — the kind of slip a maintainer could make in a refactoring or "optimisation" — that need something specific to manifest: an unusual input (size, weight range, repeated items, particular parameter values), a multi-step sequence of operations (reuse after reset, merge then stream, several batches), a particular order of insertion, or two cooperating sites that each look fine alone. Avoid changes that any ordinary use would expose at once (e.g. returning a constant), changes that make the code panic on ordinary input, and changes to test code, Cargo.toml features, or the `verif_hooks`-guarded code (src/verif.rs and `#[cfg(feature = "verif_hooks")]` lines must stay as they are and must keep compiling with `--features verif_hooks`).

For each change k (k = 1..{n}):
 1. Start from a clean tree (`git -C /tmp/seed-{p} checkout -- . && git -C /tmp/seed-{p} clean -fdq -e target`).
 2. Edit the library source under /tmp/seed-{p}/src.
 3. Save the change as /tmp/seed-out/{p}/m{{k}}/patch.diff (`git -C /tmp/seed-{p} diff -- src > ...`); it must apply with `git apply` on the clean tree and contain ONLY the library change (not the demonstration).
 4. Write a demonstration: a standalone integration test file /tmp/seed-out/{p}/m{{k}}/demo.rs (to be copied to /tmp/seed-{p}/tests/demo.rs and run with `cargo test --offline --release --test demo`) that uses only the crate's public API, is deterministic (fixed seeds / fixed inputs, or statistically overwhelming margins), FAILS with your change applied and PASSES on the clean tree. Verify both yourself.
 5. Verify that with the change applied `cargo build --offline --features verif_hooks` works and that the existing tests still pass. The suite is slow in debug mode; run it as `cd /tmp/seed-{p} && cargo test --offline --lib -- --test-threads 6 2>&1 | tail -15` (about 5-8 minutes). These 4 tests are known to exceed the time limit / are very slow on the clean tree too and may be skipped with `--skip`: test_revoptdens_manybins_fnv_f64, test_ordminhash2_p1, test_ordminhash2_p2, test_ordminhash2_p3. All other tests must pass. If a change makes an existing test fail, it does not qualify: pick another one.
 6. Write /tmp/seed-out/{p}/m{{k}}/meta.json with keys: "property" ("{p}"), "summary" (one sentence: what was changed), "needs" (what specific input / sequence / order is needed for the break to manifest), "files" (list of edited source files), "verified" (the commands you ran and what you observed, incl. the test-suite result line).

Practical notes: the sandbox is offline (always pass --offline to cargo; nothing can be downloaded). Use `CARGO_TARGET_DIR=/tmp/seed-{p}/target` (the default inside the worktree) and do not start more than one cargo command at a time. Leave the worktree with a clean source tree at the end (the target directory may stay). Finish with a short report listing, per change, the summary, the "needs" and whether all verifications succeeded. If you cannot find {n} qualifying changes, deliver the ones you have and say so."""
if __name__=='__main__':
    print(prompt(sys.argv[1], int(sys.argv[2]) if len(sys.argv)>2 else 2))
