#!/usr/bin/env python3
"""Confirms a seeded change independently of the sub-agent that wrote it, in a scratch worktree of /repo:
  - the patch applies on /repo's HEAD and the crate builds with and without --features verif_hooks
  - the demonstration fails with the patch and passes without it
  - the repository's own test-suite (baseline nextest profile) still passes all stable baseline tests with the patch
Usage: confirm_seed.py <dir with patch.diff demo.rs meta.json> [--skip-suite]
Writes <dir>/confirm.json; removes the scratch worktree and its build output afterwards."""
import json
import os
import shutil
import subprocess
import sys
import time
import xml.etree.ElementTree as ET


def sh(cmd, cwd=None, env=None, timeout=3600):
    try:
        r = subprocess.run(cmd, cwd=cwd, env=env, stdout=subprocess.PIPE, stderr=subprocess.STDOUT, text=True, timeout=timeout, errors="replace")
        return r.returncode, r.stdout
    except subprocess.TimeoutExpired as e:
        return None, (e.stdout or "") if isinstance(e.stdout, str) else ""


def main():
    d = os.path.abspath(sys.argv[1])
    skip_suite = "--skip-suite" in sys.argv
    tag = d.strip("/").replace("/", "-")[-24:]
    wt = "/tmp/confirm-%s-%d" % (tag, os.getpid())
    env = dict(os.environ)
    env.update({"CARGO_NET_OFFLINE": "true", "RUST_BACKTRACE": "0", "CARGO_TARGET_DIR": os.path.join(wt, "target")})
    env.pop("RUST_LOG", None)
    res = {"dir": d, "at": time.strftime("%Y-%m-%dT%H:%M:%S"), "repo_head": sh(["git", "-C", "/repo", "rev-parse", "--short", "HEAD"])[1].strip()}
    try:
        rc, out = sh(["git", "-C", "/repo", "worktree", "add", "--detach", wt, "HEAD"])
        if rc != 0:
            res["error"] = "worktree: " + out[-300:]
            return res
        os.makedirs(os.path.join(wt, "tests"), exist_ok=True)
        shutil.copy(os.path.join(d, "demo.rs"), os.path.join(wt, "tests", "demo.rs"))
        feat = ["--features", "verif_hooks"] if "probminhash::verif" in open(os.path.join(d, "demo.rs")).read() else []
        res["demo_uses_verif_hooks"] = bool(feat)
        # demo on the clean tree
        rc, out = sh(["cargo", "test", "--offline", "--release", "--test", "demo"] + feat, cwd=wt, env=env)
        res["demo_clean_exit"] = rc
        res["demo_clean_tail"] = out[-400:]
        # apply
        rc, out = sh(["git", "-C", wt, "apply", os.path.join(d, "patch.diff")])
        res["patch_applies"] = rc == 0
        if rc != 0:
            res["error"] = "apply: " + out[-300:]
            return res
        res["files_changed"] = sh(["git", "-C", wt, "diff", "--stat", "--", "src"])[1].strip().splitlines()[-1:]
        rc, out = sh(["cargo", "build", "--offline", "--features", "verif_hooks"], cwd=wt, env=env)
        res["builds_with_hooks"] = rc == 0
        rc, out = sh(["cargo", "test", "--offline", "--release", "--test", "demo"] + feat, cwd=wt, env=env)
        res["demo_patched_exit"] = rc
        res["demo_patched_tail"] = out[-600:]
        if not skip_suite:
            os.remove(os.path.join(wt, "tests", "demo.rs"))
            t0 = time.time()
            rc, out = sh(["cargo", "nextest", "run", "--workspace", "--no-fail-fast", "--tool-config-file", "pb:/verif/tools/nextest.toml", "--profile", "pb",
                          "--test-threads", "8", "--offline"], cwd=wt, env=env, timeout=5400)
            res["suite_wall_s"] = round(time.time() - t0)
            junit = os.path.join(wt, "target", "nextest", "pb", "junit.xml")
            passed = set()
            failed = set()
            if os.path.exists(junit):
                for tc in ET.parse(junit).getroot().iter("testcase"):
                    name = tc.get("name", "")
                    full = name if name.startswith("probminhash::") else "probminhash::" + name
                    (passed if tc.find("failure") is None and tc.find("error") is None else failed).add(full)
            base = json.load(open("/root/.vp/BASELINE.json"))
            missing = [t for t in base["stable_pass"] if t not in passed]
            res["suite_passed"] = len(passed)
            res["suite_failed"] = sorted(failed)
            res["suite_stable_missing"] = missing
            res["suite_ok"] = len(missing) == 0 and len(passed) > 0
        res["confirmed"] = bool(res.get("patch_applies") and res.get("builds_with_hooks") and res.get("demo_clean_exit") == 0 and res.get("demo_patched_exit") not in (0, None)
                                and (skip_suite or res.get("suite_ok")))
        return res
    finally:
        sh(["git", "-C", "/repo", "worktree", "remove", "--force", wt])
        shutil.rmtree(wt, ignore_errors=True)
        json.dump(res, open(os.path.join(d, "confirm.json"), "w"), indent=1)
        print(json.dumps({k: v for k, v in res.items() if not k.endswith("_tail")}, indent=1))


if __name__ == "__main__":
    main()
