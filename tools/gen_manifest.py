#!/usr/bin/env python3
"""Writes /verif/MANIFEST.json from the table below (kept in one place so that it stays valid)."""
import json
import os
import subprocess

VERIF = os.path.dirname(os.path.dirname(os.path.abspath(__file__)))

# id -> (technique, level category, level text, level_note, design_ref)
CHECKS = {
 "C01": ("statistical law monitor over executions of the real sketchers: staged z-tests (false-alarm budget ~1e-9 per cell) against an independently computed J_P, MSE bound and per-item occupancy",
         "exploration", "Runs ProbMinHash2/3/3a/3aSha on generated weighted set pairs with fresh random identifiers per trial and compares the mean collision fraction, its mean squared error and single-item occupancy with closed forms. Decides the expectation up to the resolution printed per cell; families of weight vectors are finite.",
         "Trusted: the harness oracle for J_P (O(n^2) closed form), Xoshiro256++ as a source of identifiers, the normal/Bernstein tail used by the staged test.", "6/C01"),
 "C02": ("exact differential/metamorphic monitor with register hook: bit-exact comparison of executions that must agree (orders, entry points, batches, 3 vs 3a, 2^k scaling, union composition, unpruned single-item reference)",
         "exploration", "Each generated weighted set is sketched ~12 ways; signatures and registers must be identical / related exactly. A single counter-example is a replayable violation; ties are told apart with the register accessor.",
         "Trusted: the read-only register accessor (verif_hooks); generated orders include adversarial ones derived from the pruning mechanism, not a search.", "6/C02"),
 "C03": ("statistical law monitor (staged z-tests on bias and MSE) plus exact permutation check of single-item sketches with chi-square / KS uniformity monitors",
         "exploration", "SuperMinHash f32/f64 and SuperMinHash2 u32/u64 over set shapes and m from 1 to far above n; every single-item sketch is checked to be a permutation of integer parts.",
         "Trusted: harness statistics; hash collisions of identifiers under 32-bit hashers are filtered by the harness.", "6/C03"),
 "C04": ("exact metamorphic monitor: bit-identical sketches across reorderings, repetitions, chunkings and entry points; stored hashes must be hashes of streamed items",
         "exploration", "Random streams with duplicates are sketched in many orders/chunkings by all five sketchers and compared bit for bit, including winners-first/last orders aimed at the early-exit bookkeeping.",
         "Trusted: BuildHasherDefault::hash_one as the reference hash of an item.", "6/C04"),
 "C05": ("exact model-based monitor: sketch of a set vs position-wise join of single-item sketches; random merge trees vs sketch of the union; refused merges leave all observables unchanged; low-sketch invariant after every operation",
         "exploration", "Random operation histories of sketch/merge/further sketch over several parameter tuples and register types, checked after every operation.",
         "Trusted: single-item sketches of the real code as building blocks of the model (their law is checked by C06/C07).", "6/C05"),
 "C06": ("statistical monitor of relative bias and spread of the cardinality estimate, exact monotonicity invariant after every update/merge, differential serial-vs-parallel estimator across RAYON_NUM_THREADS schedules (TSan leg in thorough)",
         "exploration", "Cardinalities 1..1e6, several (b,m,a,q), u16/u32 registers; estimate recomputed after each step of long histories.",
         "Trusted: the advertised rsd formula as quoted in the property; rayon's scheduler as the source of schedule diversity.", "6/C06"),
 "C07": ("statistical monitor of the register collision fraction against an exact collision model (with clipping); exhaustive enumeration of collision fractions D/m for the bounds function under catch_unwind",
         "exploration", "Model-vs-execution staged tests over cardinality triples and b; get_jaccard_bounds called on every fraction D/m for all m <= 2048 and several b.",
         "Trusted: the harness collision model (numerical integration of the exponential register law).", "6/C07"),
 "C08": ("statistical law monitor (staged z-tests) of the collision fraction of densified sketches in all three views against the true Jaccard index, across fill ratios",
         "exploration", "Opt/RevOpt densification, float/u64/u32 views, m/|A u B| from 1/100 to 1000.", "Trusted: harness statistics.", "6/C08"),
 "C09": ("exact history monitor with raw-state hook and logical-step termination monitor (densify progress callback): populated bins untouched, copies come from populated bins, idempotence, slice = item-wise + finish, view functions",
         "exploration", "Random interleavings of sketch/sketch_slice/end_sketch/reinit including the empty stream; termination decided on logical steps, not wall-clock.",
         "Trusted: verif_raw_state and densify_tick hooks.", "6/C09"),
 "C10": ("statistical law monitor against an exact enumeration oracle of the order-min-hash collision probability (memoised recursion over the uniform ranking), staged z-tests",
         "exploration", "Sequence pairs with and without repeats, l in 1..5, m from 1 to 1024, fresh random labels per trial.", "Trusted: the harness enumeration oracle.", "6/C10"),
 "C11": ("exact metamorphic monitor with selected-indices hook: selected (element, occurrence) sets are invariant under permutations; l=1 signatures equal; signature is a function of the spelled tuple",
         "exploration", "Sequences and permutations (reverse, rotations, random, winners-last), after unrelated earlier hash_set calls.", "Trusted: verif_selected_indices accessor.", "6/C11"),
 "C12": ("differential monitor of sketch digests across instances, concurrent threads and separate processes (different ASLR / RandomState / thread_rng), TSan leg in thorough",
         "exploration", "A battery of sketcher types x parameters x inputs is digested by two instances, 16 concurrent threads and several child processes; all digests must agree.",
         "Trusted: the OS gives different address-space layout and per-process random state to child processes (observed and recorded).", "6/C12"),
 "C13": ("exact differential monitor: sketcher after random pre-history + reinit/reset vs freshly constructed sketcher on the same input, including secondary observables",
         "exploration", "Seven sketcher families, pre-histories with partial streams, (un)finished densification, merges, clipped registers.", "Trusted: -", "6/C13"),
 "C14": ("exact oracle monitor for the counting estimators (agreements/length recomputed by the harness, symmetry, length mismatch reported) and a totality monitor of the MLE run in child processes; the length-mismatch clause also in a second build without debug assertions",
         "exploration", "Planted agreement patterns over all element types and lengths; MLE on nested/unequal/identical/disjoint pairs, several b.", "Trusted: -", "6/C14"),
 "C15": ("model-based runtime monitor: shadow Vec of per-slot minima compared with the real tracker after every operation; bounded exhaustive enumeration of short histories",
         "exploration", "Every m in 1..130 and larger ones, tie-heavy alphabets, resets; all sequences of length <= 6 over m <= 5 and 3 values.", "Trusted: the guarded public wrapper forwards to the private tracker.", "6/C15"),
 "C16": ("distribution monitor: range check of every sample, KS distance and chi-square against the closed-form law, first-try acceptance fraction via a counting generator, scripted extreme generator words",
         "exploration", "15 rates from 1e-9 to 30 including those used by ProbMinHash3.", "Trusted: Xoshiro256++ as uniform source.", "6/C16"),
 "C17": ("exact permutation/history-independence monitor over many sizes plus chi-square uniformity monitors over all m! orders (m<=5) and position x value tables",
         "exploration", "All m in 1..300, random sizes to 2^20+, paired runs on identical generator streams, constant generators at the interval ends.", "Trusted: Xoshiro256++ as uniform source.", "6/C17"),
 "C18": ("sanitizers on a byte-identity workload: Miri (UB / use-after-free / dealloc), AddressSanitizer build and valgrind memcheck in thorough; plus exact comparison with harness-computed native-endian bytes",
         "exploration", "Random values of every implementing type incl. empty and large vectors; any tool report is a violation.", "Trusted: the tools; they only see what the workload reaches.", "6/C18"),
 "C19": ("exhaustive execution over all 2^32 inputs of the 32-bit pair; structured + random sampling of the 64-bit pair",
         "exploration", "32-bit pair closed completely (both compositions); 64-bit pair sampled (2^30 quick / 2^36 thorough plus ~46k structured words).", "Trusted: -; the 64-bit half is sampled, not closed.", "6/C19"),
 "C20": ("fault enumeration: every proper prefix of every dumped file is reloaded (must be Err, never Ok or panic); real crashes injected with strace write-kill in thorough; exact round-trip oracle",
         "fault_enumeration", "For each dumped parameter tuple all byte prefixes are enumerated (exhaustive per file); parameter tuples are generated.", "Trusted: prefix truncation models a crash during the single buffered write; strace injection adds real kills.", "6/C20"),
}

# properties currently claimed (a property is added here once its monitor exists and is silent on the unchanged tree)
CLAIMED = os.environ.get("CLAIMED", "").split() or None


def main():
    claimed_file = os.path.join(VERIF, "tools", "claimed.txt")
    claimed = [l.strip() for l in open(claimed_file) if l.strip() and not l.startswith("#")]
    na_file = os.path.join(VERIF, "tools", "not_applicable.json")
    na = json.load(open(na_file)) if os.path.exists(na_file) else {}
    commits = subprocess.run(["git", "-C", "/repo", "log", "--format=%H %s"], stdout=subprocess.PIPE, text=True).stdout.splitlines()
    hook_commits = [c.split()[0] for c in commits if " verif hooks" in c]
    checks = []
    for pid in sorted(CHECKS):
        if pid not in claimed:
            continue
        tech, cat, text, note, ref = CHECKS[pid]
        checks.append({
            "property_id": pid,
            "quick_cmd": "./check %s quick" % pid,
            "thorough_cmd": "./check %s thorough" % pid,
            "evidence_file": "/verif/evidence/%s.json" % pid,
            "replay_cmd_template": "./check %s --replay {path}" % pid,
            "engine": "pmhv",
            "level_claimed": {"category": cat, "text": text, "design_ref": "DESIGN.md section " + ref},
            "level_note": note,
            "technique": tech,
        })
    not_applicable = []
    for pid in sorted(CHECKS):
        if pid not in claimed:
            not_applicable.append({"property_id": pid, "reason": na.get(pid, "monitor not built yet in this round (planned, see DESIGN.md section 6)")})
    man = {
        "version": 1,
        "setup_cmd": "./check build",
        "hooks": {
            "guard": "cargo feature verif_hooks (off by default)",
            "enable": "the harness crate depends on probminhash = { path = \"/repo\", features = [\"verif_hooks\"] }; every ./check rebuilds it from /repo's working tree",
            "baseline_off_cmd": "/verif/tools/baseline_off.sh",
            "source_commits": hook_commits,
            "add_only": True,
        },
        "engines": [{"name": "pmhv", "path": "/verif/harness", "serves_properties": claimed,
                     "kind_free_text": "Rust harness running the real crate under generated workloads with oracles (exact relations, statistical law monitors) plus tool legs (Miri, ASan, TSan, valgrind, strace) driven by /verif/check and /verif/tools/legs.py"}],
        "checks": checks,
        "not_applicable": not_applicable,
        "notes": "Runtime monitoring and sanitizers only. Verdicts: VIOLATION (exit 1), held on what was observed (exit 0, KNOWN-FINDING lines for entries of known_findings.json), INCONCLUSIVE lines never fail a run. VERIF_SEED seeds every random choice.",
    }
    json.dump(man, open(os.path.join(VERIF, "MANIFEST.json"), "w"), indent=1)
    print("MANIFEST.json: %d checks, %d not applicable" % (len(checks), len(not_applicable)))


if __name__ == "__main__":
    main()
